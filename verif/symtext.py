"""E-D symbolic text: formatted numbers become *placeholder strings* of the exact length
CPython would print, so that all of chmpy's string code (concatenation, slicing, split,
strip) runs natively; float()/int() on a token return the rounded symbolic value when the
token is exactly one whole placeholder and fail otherwise (a column shifted or cut).

Model of the CPython runtime (not of chmpy): text of '{:W.Pf}'.format(x) is
sign + <k integer digits> + '.' + <P digits>, right-aligned in W, where the printed value r
satisfies |r - x| <= 0.5*10^-P and k is the digit count of floor(|r|); '{:Wd}' likewise.
The explorer forks on the sign and on k."""
import re
from fractions import Fraction

import z3

from . import symx
from .symx import Sym, SymUnsupported

_SPEC = re.compile(r"^(?:(?P<fill>.)?(?P<align>[<>=^]))?(?P<sign>[-+ ])?(?P<zero>0)?(?P<width>\d+)?(?:\.(?P<prec>\d+))?(?P<type>[fds])?$")
PUA = 0xE000


class TextModel:
    def __init__(self, ex, max_int_digits=6):
        self.ex = ex
        self.max_int_digits = max_int_digits
        self.reg = {}      # placeholder core text -> (printed value Sym, original Sym, spec)
        self.n = 0

    def fmt(self, x: Sym, spec: str) -> str:
        m = _SPEC.match(spec)
        if not m or m.group("type") not in ("f", "d"):
            raise SymUnsupported("format spec %r" % spec)
        if m.group("zero") or (m.group("align") and m.group("align") != ">"):
            raise SymUnsupported("format spec %r" % spec)
        ex = self.ex
        width = int(m.group("width") or 0)
        typ = m.group("type")
        if typ == "f":
            p = int(m.group("prec") if m.group("prec") is not None else 6)
            r, name = ex.fresh("printed")
            half = Fraction(1, 2 * 10 ** p)
            ex.defs[name] = [r.t - x.real() <= half, x.real() - r.t <= half]
            neg = bool(x < 0)
            mag = r
        else:
            if not (x.is_int or x.intlike):
                raise SymUnsupported("'d' format of a non-integer")
            p = 0
            r = x
            neg = bool(x < 0)
            mag = x
        k = None
        a = abs(mag)
        for d in range(1, self.max_int_digits + 1):
            if bool(a < 10 ** d):
                k = d
                break
        if k is None:
            raise SymUnsupported("more than %d integer digits: tighten the stated bound" % self.max_int_digits)
        self.n += 1
        ch = chr(PUA + self.n)
        body = ch * (k + (1 + p if typ == "f" and p > 0 else 0))
        sgn = "-" if neg else {"+": "+", " ": " "}.get(m.group("sign") or "-", "")
        core = (sgn if sgn != " " else "") + body
        self.reg[core] = (r, x, spec)
        text = sgn + body
        fill = m.group("fill") or " "
        return text.rjust(width, fill)

    def reset(self):
        self.reg.clear()
        self.n = 0

    def has_placeholder(self, s: str) -> bool:
        return any(PUA <= ord(c) < PUA + 0x1800 for c in s)

    def parse_number(self, token: str, kind):
        t = token.strip()
        if not self.has_placeholder(t):
            return kind(t)
        if t.startswith("+"):
            t = t[1:]
        if t in self.reg:
            r, x, spec = self.reg[t]
            if kind is int and not spec.endswith("d"):
                raise ValueError("invalid literal for int(): a formatted float")
            return r
        raise ValueError("could not convert string to %s: token %r is not one whole written field (columns shifted or cut)" % (kind.__name__, _show(token)))


def _show(s):
    return "".join("#" if PUA <= ord(c) < PUA + 0x1800 else c for c in s)


CURRENT = None


def install(tm):
    global CURRENT
    CURRENT = tm


def _sym_format(self, spec):
    if CURRENT is None:
        raise SymUnsupported("formatting a symbolic value without a TextModel")
    return CURRENT.fmt(self, spec)


Sym.__format__ = _sym_format
Sym.__str__ = lambda self: _sym_format(self, "d") if (self.is_int or self.intlike) else Sym.__repr__(self)


def sym_float(tok):
    if isinstance(tok, Sym):
        return tok
    if isinstance(tok, str) and CURRENT is not None:
        return CURRENT.parse_number(tok, float)
    return float(tok)


class _IntMeta(type):
    def __instancecheck__(cls, o):
        return isinstance(o, int)


def sym_int(tok, *a):
    if isinstance(tok, Sym):
        return tok if (tok.is_int or tok.intlike) else tok.trunc()
    if isinstance(tok, str) and CURRENT is not None and not a:
        return CURRENT.parse_number(tok, int)
    return int(tok, *a)
