"""C04  Unit-cell molecules partition the cell into whole, symmetry-related molecules.

The real unit_cell_connectivity / unit_cell_molecules / symmetry_unique_molecules (and the
real Molecule.from_arrays / center_of_mass / translate) run symbolically.  The C routines are
contract stubs: the slab (layout proven in C03) hands out the reference cell plus neighbour
blocks whose cell vectors are *symbolic integers*, the KD-tree returns for every candidate
contact a symbolic distance (forked: far / near but not bonded / bonded), csgraph returns the
components and a breadth-first order of the recorded edges.  Per path the solver decides the
edge bookkeeping, the partition, the unwrapped positions (f + shift + n).D with the shifts of
an independent walk over the bonds, the recentring and the alignment of all per-atom arrays."""
import itertools
import time
from fractions import Fraction

import numpy as np
import z3

from .. import symx
from ..symx import Sym, SymBool, Explorer, load_shimmed, model_value, OArr
from . import c01, c03

TOL = 0.4
DGEN = [[Fraction(73, 10), Fraction(0), Fraction(0)], [Fraction(-21, 10), Fraction(89, 10), Fraction(0)], [Fraction(13, 10), Fraction(-17, 10), Fraction(101, 10)]]


# ------------------------------------------------------------------------------------- replay
def _brute_molecules(uc_frac, Z, D, tol=TOL):
    """independent reference: periodic bond graph and unwrapped molecules of a P1 cell"""
    from chmpy.core.element import Element
    n = len(uc_frac)
    cov = [Element.from_atomic_number(int(z)).cov for z in Z]
    bonds = []
    for a in range(n):
        for k in range(a + 1, n):
            for o in itertools.product((-1, 0, 1), repeat=3):
                d = np.linalg.norm((uc_frac[k] + np.array(o) - uc_frac[a]) @ D)
                if 1e-3 < d < cov[a] + cov[k] + tol:
                    bonds.append((a, k, o, d))
    comp = list(range(n))

    def find(x):
        while comp[x] != x:
            x = comp[x]
        return x
    for a, k, o, d in bonds:
        comp[find(a)] = find(k)
    groups = {}
    for a in range(n):
        groups.setdefault(find(a), []).append(a)
    return bonds, sorted(groups.values())


def _check_crystal(c, D, tag):
    """all claims of the property on one real P1 crystal, against the brute-force reference"""
    inv = np.linalg.inv(D)
    uca = c.unit_cell_atoms()
    ucf, ucz = np.asarray(uca["frac_pos"], float), [int(z) for z in uca["element"]]
    n = len(ucz)
    bad = []
    if n != len(c.asymmetric_unit) * len(c.space_group.symmetry_operations):
        return []          # coincident atoms were merged: outside the property
    cart = ucf @ D
    if n > 1 and min(np.linalg.norm(cart[i] - cart[j]) for i in range(n) for j in range(i + 1, n)) < 0.4:
        return []
    rb, groups = _brute_molecules(ucf, ucz, D)
    if len({(a, k) for a, k, o, d in rb}) != len(rb):
        return []          # two contacts between the same atoms: outside the property
    for grp in groups:
        par = [int(uca["asym_atom"][i]) for i in grp]
        if len(set(par)) != len(par):
            return []      # a molecule bonded to its own image (special position): outside the property
    try:
        mols = c.unit_cell_molecules()
        uniq = c.symmetry_unique_molecules()
    except Exception as e:
        return ["%s: %s: %s" % (tag, type(e).__name__, e)]
    got = sorted(sorted(int(x) for x in m.properties["unit_cell_atoms"]) for m in mols)
    if got != groups:
        bad.append("molecules %s, bonded groups are %s" % (got, groups))
    g, props = c.unit_cell_connectivity()
    want_edges = {(a, k): o for a, k, o, d in rb}
    got_edges = {(int(i), int(j)): tuple(int(round(float(x))) for x in props[(i, j)]) for (i, j) in props}
    if got_edges != want_edges:
        bad.append("edges %s, expected %s" % (got_edges, want_edges))
    for m in mols:
        idx = [int(x) for x in m.properties["unit_cell_atoms"]]
        pos = np.asarray(m.positions, float)
        if len(pos) != len(idx):
            bad.append("molecule %s has %d positions" % (idx, len(pos)))
            continue
        fr = pos @ inv
        sh = fr - ucf[idx]
        if np.abs(sh - np.round(sh)).max() > 1e-6:
            bad.append("an atom of molecule %s is not a lattice translate of its unit-cell site" % idx)
        if [int(e.atomic_number) for e in m.elements] != [ucz[i] for i in idx]:
            bad.append("elements of molecule %s do not belong to its atoms" % idx)
        if [int(x) for x in m.properties["asymmetric_unit_atoms"]] != [int(uca["asym_atom"][i]) for i in idx]:
            bad.append("asymmetric_unit_atoms of molecule %s misaligned" % idx)
        if [int(x) for x in m.properties["generator_symop"]] != [int(uca["symop"][i]) for i in idx]:
            bad.append("generator_symop of molecule %s misaligned" % idx)
        if [str(x) for x in m.properties["asymmetric_unit_labels"]] != [str(c.asymmetric_unit.labels[int(uca["asym_atom"][i])]) for i in idx]:
            bad.append("labels of molecule %s misaligned" % idx)
        for a, k, o, d in rb:
            if a in idx and k in idx:
                dd = np.linalg.norm(pos[idx.index(k)] - pos[idx.index(a)])
                if abs(dd - d) > 1e-6:
                    bad.append("bonded atoms %d-%d are %.4f apart in the molecule (bond length %.4f)" % (a, k, dd, d))
        com = np.asarray(m.center_of_mass, float) @ inv
        if (com < -1e-9).any() or (com >= 1 + 1e-9).any():
            bad.append("centre of mass of molecule %s at fractional %s" % (idx, np.round(com, 4).tolist()))
    cover = sorted(int(x) for m in uniq for x in m.properties["asymmetric_unit_atoms"])
    if cover != list(range(len(c.asymmetric_unit))):
        bad.append("symmetry-unique molecules cover asymmetric atoms %s" % cover)
    if any("asym_mol_idx" not in m.properties for m in mols):
        bad.append("a unit-cell molecule carries no asym_mol_idx")
    return ["%s: %s" % (tag, b_) for b_ in bad]


def _battery(nat):
    """P1 crystals with a small molecule straddling every face / edge / corner of the cell, all atom orders,
    bonds at ordinary length and just inside / outside the bonding threshold"""
    from chmpy.core.element import Element
    D = np.array([[float(v) for v in row] for row in DGEN])
    inv = np.linalg.inv(D)
    templates = []
    cov = {z: Element.from_atomic_number(z).cov for z in (1, 6, 7, 8)}
    for stretch in (None, -0.03, 0.03):
        dCH = 1.0 if stretch is None else cov[6] + cov[1] + TOL + stretch
        dCO = 1.2 if stretch is None else cov[6] + cov[8] + TOL - 0.2
        base = [(6, np.zeros(3)), (1, dCH * np.array([0.6, 0.64, 0.48])), (8, dCO * np.array([-0.8, 0.36, -0.48]))]
        if nat == 4:
            base.append((7, np.array([-0.8, 0.36, -0.48]) * dCO + 1.25 * np.array([0.0, 0.6, -0.8])))
        templates.append(base)
    templates.append([(6, np.zeros(3)), (8, 1.2 * np.array([0.0, 0.8, 0.6])), (1, np.array([3.1, 2.9, 3.3]))] + ([(7, np.array([3.1, 2.9, 3.3]) + np.array([0.0, 0.0, 1.0]))] if nat == 4 else []))
    out = []
    for ti, tmpl in enumerate(templates):
        for centre in itertools.product((0.02, 0.5, 0.985), repeat=3):
            for perm in itertools.permutations(range(nat)):
                if nat == 4 and perm[0] > 1:
                    continue
                atoms = [tmpl[i] for i in perm]
                frac = np.array([np.array(centre) + xyz @ inv for _, xyz in atoms])
                frac = frac - np.floor(frac)
                out.append(("template %d at %s order %s" % (ti, centre, perm), [z for z, _ in atoms], frac, 1))
    # P-1: the asymmetric unit lists some atoms of the molecule by their inverted image, so that a molecule is assembled
    # from atoms generated by different operations (unit-cell order and asymmetric-unit order then differ)
    for ti, tmpl in enumerate(templates[:1] + templates[-1:]):
        for centre in ((0.3, 0.2, 0.27), (0.03, 0.4, 0.3), (0.02, 0.015, 0.03)):
            for perm in itertools.permutations(range(nat)):
                if nat == 4 and perm[0] > 1:
                    continue
                for flip in itertools.product((0, 1), repeat=nat):
                    if not any(flip) or (nat == 4 and sum(flip) != 2):
                        continue
                    atoms = [tmpl[i] for i in perm]
                    frac = np.array([np.array(centre) + xyz @ inv for _, xyz in atoms])
                    frac = np.array([(-f if fl else f) for f, fl in zip(frac, flip)])
                    frac = frac - np.floor(frac)
                    out.append(("P-1, template %d at %s order %s inverted %s" % (ti, centre, perm, flip), [z for z, _ in atoms], frac, 2))
    return D, out


def replay_cell(data):
    """real API on P1 crystals: the scenario itself where it can be realised with the given contact lengths, and a battery of
    small molecules straddling the cell boundaries in every way (the failing input reported is the first that fails)"""
    from chmpy.crystal import Crystal, UnitCell, SpaceGroup, AsymmetricUnit
    from chmpy.core.element import Element
    D = np.array([[float(v) for v in row] for row in DGEN])
    inv = np.linalg.inv(D)
    Z = [int(z) for z in data["Z"]]
    n = len(Z)
    bonds = [(int(a), int(k), tuple(int(x) for x in o), float(Fraction(d))) for a, k, o, d in data["bonds"]]
    crystals = []
    # the scenario: walk over the bonds; a bond through cell o needs the two atoms on opposite sides of that face
    frac = {}
    if bonds:
        a0, k0, o0, d0 = bonds[0]
        frac[a0] = np.array([0.97 if oc > 0 else (0.03 if oc < 0 else 0.5) for oc in o0])
    else:
        frac[0] = np.array([0.5, 0.5, 0.5])
    grow = True
    while grow:
        grow = False
        for a, k, o, d in bonds:
            for (p, q, sgn) in ((a, k, 1), (k, a, -1)):
                if p in frac and q not in frac:
                    want = np.array([sgn * oc for oc in o], float)       # direction (fractional) the bond has to point
                    jit = np.array([[0.31, -0.17, 0.23], [-0.23, 0.29, 0.13], [0.11, 0.19, -0.37]])[len(frac) % 3]
                    v = (want * (1 + 0.3 * abs(jit)) + jit * (want == 0)) @ D
                    v = v / np.linalg.norm(v) * d
                    frac[q] = frac[p] + v @ inv - sgn * np.array(o)
                    grow = True
    spots = [np.array([0.55, 0.6, 0.45]), np.array([0.15, 0.5, 0.8]), np.array([0.8, 0.15, 0.5]), np.array([0.3, 0.85, 0.2])]
    for a in range(n):
        if a not in frac:
            frac[a] = spots[a % 4]
    uc_frac = np.array([frac[a] for a in range(n)])
    perm = list(data.get("perm") or range(n))
    realised, _ = _brute_molecules(uc_frac, Z, D)
    if (uc_frac >= 0).all() and (uc_frac < 1).all() and sorted((a, k, o) for a, k, o, d in realised) == sorted((a, k, o) for a, k, o, d in bonds):
        order = sorted(range(n), key=lambda a: perm[a])
        crystals.append(("scenario", [Z[a] for a in order], uc_frac[order], 1))
    _, batt = _battery(n)
    crystals += batt
    for tag, zz, fr, sgn in crystals:
        try:
            c = Crystal(UnitCell(D), SpaceGroup(sgn), AsymmetricUnit([Element[z] for z in zz], np.array(fr)))
            bad = _check_crystal(c, D, tag + " Z=%s frac=%s" % (zz, np.round(fr, 4).tolist()))
        except Exception as e:
            bad = ["%s: %s: %s" % (tag, type(e).__name__, e)]
        if bad:
            return True, bad[:3]
    return False, ["%d crystals checked, none fails" % len(crystals)]


def replay_unique(data):
    """real symmetry_unique_molecules on a co-crystal: molecules of the given sizes, space group P-1 or P1"""
    from chmpy.crystal import Crystal, UnitCell, SpaceGroup, AsymmetricUnit
    from chmpy.core.element import Element
    D = np.array([[float(v) for v in row] for row in DGEN]) * 1.6
    inv = np.linalg.inv(D)
    sizes = [int(s) for s in data["sizes"]]
    templ = {1: ([18], [[0, 0, 0]]), 2: ([9, 1], [[0, 0, 0], [0.92, 0, 0]]), 3: ([8, 1, 1], [[0, 0, 0], [0.96, 0, 0], [-0.24, 0.93, 0]]),
             4: ([7, 1, 1, 1], [[0, 0, 0], [0.94, 0, 0.3], [-0.47, 0.81, 0.3], [-0.47, -0.81, 0.3]])}
    centres = [np.array([0.17, 0.21, 0.23]), np.array([0.62, 0.33, 0.71]), np.array([0.35, 0.74, 0.41])]
    els, pos = [], []
    for s, cpos in zip(sizes, centres):
        z, xyz = templ[s]
        els += [Element[v] for v in z]
        pos += [cpos + np.array(p) @ inv for p in xyz]
    c = Crystal(UnitCell(D), SpaceGroup(int(data.get("sg", 2))), AsymmetricUnit(els, np.array(pos)))
    bad = []
    try:
        uniq = c.symmetry_unique_molecules()
        mols = c.unit_cell_molecules()
    except Exception as e:
        return True, ["symmetry_unique_molecules raises %s: %s" % (type(e).__name__, e)]
    n = len(els)
    cover = sorted(int(x) for m in uniq for x in m.properties["asymmetric_unit_atoms"])
    if cover != list(range(n)):
        bad.append("symmetry-unique molecules cover asymmetric atoms %s (expected each of %d once)" % (cover, n))
    nops = len(c.space_group.symmetry_operations)
    if len(mols) != len(sizes) * nops:
        bad.append("%d unit-cell molecules, expected %d" % (len(mols), len(sizes) * nops))
    for m in mols:
        k = m.properties.get("asym_mol_idx")
        if k is None or sorted(uniq[k].properties["asymmetric_unit_atoms"]) != sorted(m.properties["asymmetric_unit_atoms"]):
            bad.append("a unit-cell molecule is labelled %r, not with the unique molecule it is an image of" % (k,))
            break
    return bool(bad), bad[:4]


REPLAY = {"cell": replay_cell, "unique": replay_unique}
from . import c03 as _c03r   # noqa: E402  (slab layout is C03's lemma; its counterexamples keep their replay)
REPLAY.update({"slab": _c03r.replay_slab, "radius": _c03r.replay_radius})


# -------------------------------------------------------------------------------------- stubs
class StubDok:
    """dict-of-keys sparse matrix (only what the code under test uses)"""
    def __init__(self, shape, *a, **k):
        self.shape = tuple(shape)
        self.d = {}

    def __setitem__(self, key, v):
        self.d[(int(key[0]), int(key[1]))] = v

    def __getitem__(self, key):
        return self.d.get((int(key[0]), int(key[1])), 0.0)

    def items(self):
        return self.d.items()

    def keys(self):
        return self.d.keys()


class StubCsgraph:
    """connected components = partition induced by the stored keys (labels in order of the lowest node);
    breadth-first order from i_start over the undirected edges, neighbours ascending or descending"""
    def __init__(self):
        self.descending = False
        self.calls = []

    @staticmethod
    def _adj(g):
        n = g.shape[0]
        adj = {i: set() for i in range(n)}
        for (i, j) in g.keys():
            adj[i].add(j)
            adj[j].add(i)
        return n, adj

    def connected_components(self, csgraph=None, directed=True, return_labels=True, **k):
        self.calls.append(("cc", directed))
        n, adj = self._adj(csgraph)
        labels = -np.ones(n, dtype=np.int32)
        c = 0
        for s in range(n):
            if labels[s] >= 0:
                continue
            todo = [s]
            labels[s] = c
            while todo:
                x = todo.pop()
                for y in adj[x]:
                    if labels[y] < 0:
                        labels[y] = c
                        todo.append(y)
            c += 1
        return (c, labels) if return_labels else c

    def breadth_first_order(self, csgraph=None, i_start=0, directed=True, return_predecessors=True, **k):
        self.calls.append(("bfs", directed))
        n, adj = self._adj(csgraph)
        order, pred = [int(i_start)], -9999 * np.ones(n, dtype=np.int32)
        seen = {int(i_start)}
        q = 0
        while q < len(order):
            x = order[q]
            q += 1
            for y in sorted(adj[x], reverse=self.descending):
                if y not in seen:
                    seen.add(y)
                    pred[y] = x
                    order.append(y)
        return np.array(order, dtype=np.int32), pred


class Scenario:
    """which image of each unordered pair of unit-cell atoms is the candidate contact"""
    def __init__(self, n, nblocks):
        self.n, self.nblocks = n, nblocks
        self.active = {}      # (a,k) a<k -> None | 0 (same cell) | b+1 (k's image in neighbour block b is near a)
        self.dist = {(a, k): Sym(z3.Real("d_%d_%d" % (a, k))) for a in range(n) for k in range(a + 1, n)}


def make_kdtree(reg, sc):
    class KD:
        def __init__(self, pts, *a, **k):
            self.pts = np.asarray(pts, dtype=object)
            self.role = "cell" if not reg else "neighbours"
            self.queries = []
            reg.append(self)

        def sparse_distance_matrix(self, other, max_distance, *a, **k):
            self.queries.append((other, max_distance))
            md = Sym._lift(max_distance)
            out = {}
            n = sc.n
            if other is self:
                for i in range(n):
                    for j in range(n):
                        if i == j:
                            out[(i, j)] = 0.0
                        elif sc.active.get((min(i, j), max(i, j))) == 0:
                            d = sc.dist[(min(i, j), max(i, j))]
                            if (i, j) in out or (j, i) in out or bool(d <= md):
                                out[(i, j)] = d
                return {key: out[key] for key in sorted(out)}
            decided = {}
            for i in range(n):
                for r in range(len(other.pts)):
                    b, kk = r // n, r % n
                    if i == kk:
                        continue
                    a_, k_ = min(i, kk), max(i, kk)
                    # image of kk in block b near i  ==  (for i > kk) image of i in the opposite block near kk
                    blk = b if i < kk else (b ^ 1)
                    if sc.active.get((a_, k_)) == blk + 1:
                        d = sc.dist[(a_, k_)]
                        if (a_, k_) not in decided:
                            decided[(a_, k_)] = bool(d <= md)
                        if decided[(a_, k_)]:
                            out[(i, r)] = d
            return {key: out[key] for key in sorted(out)}
    return KD


class Mods:
    def __init__(self):
        self.cm = load_shimmed("chmpy.crystal.crystal")
        self.ucm = load_shimmed("chmpy.crystal.unit_cell")
        self.ucm.UnitCell._set_cell_type = lambda self: None
        self.mm = load_shimmed("chmpy.core.molecule")
        self.mm.Molecule.guess_bonds = lambda self, tolerance=0.4: None
        self.cm.Molecule = self.mm.Molecule
        self.cm.dok_matrix = StubDok
        self.csg = StubCsgraph()
        self.cm.csgraph = self.csg


def concrete_cell(mods):
    uc = mods.ucm.UnitCell.__new__(mods.ucm.UnitCell)
    inv = c01._inv3(DGEN)
    uc.direct = np.array([[Sym(z3.RealVal(v)) for v in row] for row in DGEN], dtype=object).view(OArr)
    uc.inverse = np.array([[Sym(z3.RealVal(inv[3 * i + j])) for j in range(3)] for i in range(3)], dtype=object).view(OArr)
    return uc


def _r(x):
    if isinstance(x, z3.ExprRef):
        return z3.ToReal(x) if z3.is_int(x) else x
    return Sym._lift(x).real()


def _vec_eq(a, b):
    return z3.And(*[_r(x) == _r(y) for x, y in zip(a, b)])


def _dotD(v):
    return [sum(_r(v[q]) * z3.RealVal(DGEN[q][c]) for q in range(3)) for c in range(3)]


# ---------------------------------------------------------------------- harness A: one unit cell
def run_cell(ctx, mods, n, Z, asym, nblocks, allow_near, pairs=None, tag="", first=None, descending=0):
    """n unit-cell atoms with symbolic fractional coordinates; neighbour blocks +-c1 (,+-c2) with symbolic integer
    cell vectors; every choice of candidate image per pair; far / near / bonded decided by forking."""
    from chmpy.core.element import Element
    ex = Explorer(max_paths=20000, branch_timeout_ms=5000)
    F = np.array([[Sym(z3.Real("f%d_%d" % (k, c))) for c in range(3)] for k in range(n)], dtype=object).view(OArr)
    C = [[Sym(z3.Int("c%d_%d" % (b, c))) for c in range(3)] for b in range(nblocks // 2)]
    blocks = []
    for cv in C:
        blocks.append(list(cv))
        blocks.append([-x for x in cv])
    cov = [Element.from_atomic_number(z).cov for z in Z]
    mass = [Fraction(repr(float(Element.from_atomic_number(z).mass))) for z in Z]
    thr = {(a, k): symx._nice_fraction(cov[a] + cov[k] + TOL) for a in range(n) for k in range(a + 1, n)}
    maxd = symx._nice_fraction(2 * max(cov) + TOL)
    sc = Scenario(n, nblocks)
    ex.base = [z3.And(x.t >= 0, x.t < 1) for x in F.flat]
    for cv in C:
        ex.base += [z3.And(x.t >= -1, x.t <= 1) for x in cv] + [z3.Or(*[x.t != 0 for x in cv])]
    if len(C) == 2:
        ex.base += [z3.Or(*[C[0][c].t != C[1][c].t for c in range(3)]), z3.Or(*[C[0][c].t != -C[1][c].t for c in range(3)])]
    ex.base += [d.t > z3.RealVal("2/5") for d in sc.dist.values()]       # distinct atoms are never closer than 0.4 A
    uc = concrete_cell(mods)
    symop = np.array([16484, 3198, 16482, 3200][:n])
    labels = np.array(["L%d" % i for i in range(n)])
    all_pairs = pairs or [(a, k) for a in range(n) for k in range(a + 1, n)]
    choice_vars = {p: Sym(z3.Int("sc_%d_%d" % p)) for p in all_pairs}
    order_var = Sym(z3.Int("bfs_order"))
    reg = []
    mods.cm.KDTree = make_kdtree(reg, sc)
    captured = {}

    def go():
        del reg[:]
        sc.active = {}
        for pi, p in enumerate(all_pairs):
            v = ex.choose(choice_vars[p], list(first) if (pi == 0 and first is not None) else list(range(nblocks + 2)))
            sc.active[p] = None if v == 0 else v - 1
        mods.csg.descending = bool(ex.choose(order_var, [descending]))
        cr = c03.make_crystal(mods, uc)
        au = c03.FakeAsym(F, Z)
        au.labels = labels
        cr.asymmetric_unit = au
        cr._unit_cell_atom_dict = {"asym_atom": np.array(asym), "frac_pos": F, "element": np.array(Z), "symop": symop, "label": labels[np.array(asym)],
                                   "occupation": np.ones(n), "cart_pos": np.dot(F, uc.direct)}

        def slab(bounds=None, **k):
            captured["bounds"] = bounds
            rows = [F] + [F + np.array(b, dtype=object) for b in blocks]
            cells = [[0, 0, 0]] * n
            for b in blocks:
                cells += [list(b)] * n
            return {"n_uc": n, "n_cells": 1 + len(blocks), "frac_pos": np.vstack(rows).view(OArr), "element": np.tile(np.array(Z), 1 + len(blocks)),
                    "asym_atom": np.tile(np.array(asym), 1 + len(blocks)), "symop": np.tile(symop, 1 + len(blocks)),
                    "label": np.tile(labels[np.array(asym)], 1 + len(blocks)), "occupation": np.ones(n * (1 + len(blocks))),
                    "cell": np.array(cells, dtype=object).view(OArr), "cart_pos": np.dot(np.vstack(rows), uc.direct)}
        cr.slab = slab
        mols = cr.unit_cell_molecules()
        g, props = cr.unit_cell_connectivity()
        return cr, mols, g, props, list(reg), dict(sc.active)

    paths = ex.run(go)
    ctx.add_paths(ex)
    nq = 0
    for pn, p in enumerate(paths):
        active = {pp: (None if d[1] == 0 else d[1] - 1) for pp, d in zip(all_pairs, p.decisions[:len(all_pairs)])}
        name = "%s%d atoms, %d neighbour blocks, path %d" % (tag, n, nblocks, pn)
        # independent classification of the candidate contacts
        pc = list(p.pc)
        # a finite molecule: offsets around a ring of bonds sum to zero (otherwise the bonds form a polymer, outside the property)
        off = {}
        for pp, act in active.items():
            if act is None:
                continue
            off[pp] = [z3.IntVal(0)] * 3 if act == 0 else [x.t for x in blocks[act - 1]]
        r, mdl = ctx.witness(name + ": path condition satisfiable", pc, ex=ex, timeout=20, expect=None)
        if r != "sat":
            continue

        def val(t):
            return model_value(mdl, t)
        bonded = {pp for pp in off if val(sc.dist[pp].t) < thr[pp] and val(sc.dist[pp].t) <= maxd}
        if len(bonded) == 3 and n == 3:
            ring = z3.And(*[off[(0, 1)][c] + off[(1, 2)][c] - off[(0, 2)][c] == 0 for c in range(3)])
            pc.append(ring)
            r, mdl = ctx.witness(name + ": ring of bonds closes", pc, ex=ex, timeout=20, expect=None)
            if r != "sat":
                continue
            bonded = {pp for pp in off if val(sc.dist[pp].t) < thr[pp] and val(sc.dist[pp].t) <= maxd}
        if not allow_near and any(pp not in bonded for pp in off if val(sc.dist[pp].t) <= maxd):
            continue

        def data():
            bl = []
            for pp in sorted(bonded):
                bl.append([pp[0], pp[1], [int(val(t)) for t in off[pp]], str(val(sc.dist[pp].t))])
            return {"Z": Z, "f0": [str(val(F[0, c].t)) for c in range(3)], "bonds": bl, "perm": list(asym), "scenario": {str(k): v for k, v in active.items()}}
        key = "cell:%d" % n
        if p.exc is not None:
            ctx.violation(key, "%s: raises %s: %s" % (name, type(p.exc).__name__, p.exc), data(), replay_cell)
            return
        cr, mols, g, props, trees, _ = p.value
        goals = []
        # --- classification is implied by the path (the code decided the same predicates)
        for pp in off:
            dt = sc.dist[pp].t
            isb = z3.And(dt < z3.RealVal(thr[pp]), dt <= z3.RealVal(maxd))
            goals.append(("contact %s classified as %s by the code's comparisons" % (pp, "bond" if pp in bonded else "no bond"), isb if pp in bonded else z3.Not(isb)))
        # --- KD-tree inputs and radius
        ok_struct = len(trees) == 2 and len(trees[0].pts) == n and len(trees[1].pts) == n * len(blocks)
        goals.append(("two KD-trees: reference cell and neighbour rows", z3.BoolVal(bool(ok_struct))))
        if ok_struct:
            for k in range(n):
                goals.append(("cell tree row %d = f.D" % k, _vec_eq(trees[0].pts[k], _dotD([F[k, c] for c in range(3)]))))
            for r_ in range(n * len(blocks)):
                b, k = r_ // n, r_ % n
                goals.append(("neighbour tree row %d = (f+c).D" % r_, _vec_eq(trees[1].pts[r_], _dotD([F[k, c] + blocks[b][c] for c in range(3)]))))
            for t in trees:
                for other, md in t.queries:
                    goals.append(("search radius = 2 max(cov) + tolerance", z3.BoolVal(isinstance(md, (int, float)) and abs(float(md) - float(maxd)) < 1e-12)))
        bnds = captured.get("bounds")
        goals.append(("slab bounds cover the 26 neighbouring cells", z3.BoolVal(bnds is not None and all(int(x) <= -1 for x in bnds[0]) and all(int(x) >= 1 for x in bnds[1]))))
        # --- edges
        keys = set(g.keys()) if hasattr(g, "keys") else None
        goals.append(("edge set = bonded pairs (i<j)", z3.BoolVal(keys == set(bonded) and set(props.keys()) == set(bonded))))
        if keys == set(bonded) and set(props.keys()) == set(bonded):
            for pp in bonded:
                goals.append(("edge %s length" % (pp,), Sym._lift(g[pp]).real() == sc.dist[pp].t))
                goals.append(("edge %s cell offset" % (pp,), z3.And(*[Sym._lift(props[pp][c]).real() == z3.ToReal(off[pp][c]) for c in range(3)])))
        # --- partition
        comp = {a: a for a in range(n)}

        def find(x):
            while comp[x] != x:
                x = comp[x]
            return x
        for (a, k) in bonded:
            comp[find(a)] = find(k)
        groups = {}
        for a in range(n):
            groups.setdefault(find(a), []).append(a)
        want_groups = sorted(groups.values())
        try:
            got_groups = sorted(sorted(int(x) for x in m.properties["unit_cell_atoms"]) for m in mols)
        except Exception:
            got_groups = None
        goals.append(("molecules partition the unit-cell atoms into the bonded groups", z3.BoolVal(got_groups == want_groups)))
        if got_groups == want_groups:
            for m in mols:
                idx = [int(x) for x in m.properties["unit_cell_atoms"]]
                # independent walk over the bonds from the lowest atom
                sig = {min(idx): [z3.IntVal(0)] * 3}
                grow = True
                while grow:
                    grow = False
                    for (a, k) in bonded:
                        if a in sig and k not in sig:
                            sig[k] = [sig[a][c] + off[(a, k)][c] for c in range(3)]
                            grow = True
                        elif k in sig and a not in sig:
                            sig[a] = [sig[k][c] - off[(a, k)][c] for c in range(3)]
                            grow = True
                # weights exactly as Molecule.center_of_mass forms them from the doubles: (x * m) / sum(m)
                msum = symx._nice_fraction(float(np.sum(np.asarray([Element.from_atomic_number(Z[a]).mass for a in idx]))))
                com = [sum(z3.RealVal(symx._nice_fraction(float(Element.from_atomic_number(Z[a]).mass)) / msum) * (F[a, c].t + z3.ToReal(sig[a][c])) for a in idx) for c in range(3)]
                nn = [-z3.ToReal(z3.ToInt(com[c])) for c in range(3)]
                pos = m.positions
                ok_len = len(pos) == len(idx) and len(m.elements) == len(idx)
                goals.append(("molecule %s arrays have one row per atom" % idx, z3.BoolVal(bool(ok_len))))
                if not ok_len:
                    continue
                for t_, a in enumerate(idx):
                    goals.append(("molecule %s atom %d at (f + shift + n).D, centre of mass wrapped into the cell" % (idx, a),
                                  _vec_eq(pos[t_], _dotD([F[a, c].t + z3.ToReal(sig[a][c]) + nn[c] for c in range(3)]))))
                    goals.append(("molecule %s row %d element" % (idx, t_), z3.BoolVal(int(m.elements[t_].atomic_number) == Z[a])))
                goals.append(("molecule %s asymmetric_unit_atoms aligned and ascending" % idx,
                              z3.BoolVal([int(x) for x in m.properties["asymmetric_unit_atoms"]] == [asym[a] for a in idx] and
                                         [asym[a] for a in idx] == sorted(asym[a] for a in idx))))
                goals.append(("molecule %s generator_symop aligned" % idx, z3.BoolVal([int(x) for x in m.properties["generator_symop"]] == [int(symop[a]) for a in idx])))
                goals.append(("molecule %s labels aligned" % idx, z3.BoolVal([str(x) for x in m.properties["asymmetric_unit_labels"]] == [str(labels[asym[a]]) for a in idx])))
        early = [lab for lab, gl in goals if z3.is_false(mdl.eval(gl, model_completion=True))]
        if early:
            ctx.record(name + ": goals evaluated at the witness", "counterexample")
            ctx.violation(key, "%s: %s" % (name, early[0]), data(), replay_cell)
            return
        rr = ctx.query(name + ": edges, partition, unwrapped positions, recentring, aligned arrays (%d goals)" % len(goals), pc, z3.And(*[gl for _, gl in goals]),
                       ex=ex, timeout=30 if ctx.tier == "quick" else 120, vacuity=False)
        nq += 1
        if rr.verdict == "cex":
            mdl = rr.model
            badl = [lab for lab, gl in goals if z3.is_false(mdl.eval(gl, model_completion=True))]
            bonded = {pp for pp in off if val(sc.dist[pp].t) < thr[pp] and val(sc.dist[pp].t) <= maxd}
            ctx.violation(key, "%s: %s" % (name, badl[0] if badl else "conjunction fails"), data(), replay_cell)
            return
    return len(paths)


# ------------------------------------------------------- harness B: symmetry-unique molecules
def run_unique(ctx, mods, sizes, nops, reverse):
    """real symmetry_unique_molecules over unit-cell molecules given as a family: Z' = len(sizes) parent molecules,
    nops images each, generator codes symbolic integers (forked by the code's own comparisons)"""
    ex = Explorer(max_paths=5000, branch_timeout_ms=3000)
    nasym = sum(sizes)
    parents, o = [], 0
    for sz in sizes:
        parents.append(list(range(o, o + sz)))
        o += sz
    fam = [(t, op) for op in range(nops) for t in range(len(sizes))]
    if reverse:
        fam = fam[::-1]
    codes = {(t, op): [Sym(z3.Int("code_%d_%d_%d" % (t, op, a))) for a in range(sizes[t])] for (t, op) in fam}
    tag = "sizes %s x %d images%s" % (list(sizes), nops, " (reversed list)" if reverse else "")

    def go():
        cr = mods.cm.Crystal.__new__(mods.cm.Crystal)
        cr.properties = {}
        cr.asymmetric_unit = c03.FakeAsym(np.zeros((nasym, 3)), [6] * nasym)
        mols = []
        for (t, op) in fam:
            m = mods.mm.Molecule.from_arrays([6] * sizes[t], np.arange(3.0 * sizes[t]).reshape(-1, 3) + 10.0 * op,
                                             asymmetric_unit_atoms=np.array(parents[t]), generator_symop=np.array(codes[(t, op)], dtype=object),
                                             unit_cell_atoms=np.array(parents[t]) + nasym * op)
            m.fam = (t, op)
            mols.append(m)
        cr._unit_cell_molecules = mols
        uniq = cr.symmetry_unique_molecules()
        return uniq, mols

    paths = ex.run(go)
    ctx.add_paths(ex)
    bad = None
    for pn, p in enumerate(paths):
        if p.exc is not None:
            bad = "raises %s: %s" % (type(p.exc).__name__, p.exc)
            break
        uniq, mols = p.value
        cover = sorted(int(x) for m in uniq for x in m.properties["asymmetric_unit_atoms"])
        if cover != list(range(nasym)):
            bad = "unique molecules cover asymmetric atoms %s" % cover
            break
        for m in mols:
            k = m.properties.get("asym_mol_idx")
            if k is None or not (0 <= k < len(uniq)) or [int(x) for x in uniq[k].properties["asymmetric_unit_atoms"]] != parents[m.fam[0]]:
                bad = "image %s labelled with unique molecule %r" % (m.fam, k)
                break
        if bad:
            break
    ctx.record("symmetry_unique_molecules, %s: %d paths (orderings by identity fraction), cover each asymmetric atom once, every image labelled with its parent" % (tag, len(paths)),
               "counterexample" if bad else "holds", nontrivial=True)
    if bad:
        ctx.violation("unique:%s" % ("x".join(str(s_) for s_ in sorted(sizes))), "symmetry_unique_molecules, %s: %s" % (tag, bad), {"sizes": list(sizes), "sg": 2 if nops == 2 else 1}, replay_unique)
    return len(paths)


def replay_oblique(data):
    """real API: a C-C unit whose bond crosses a cell face along the face normal, the inner atom just inside the face, in strongly
    oblique cells (P1, P-1 and P2_1); the symbolic cell harness runs one concrete moderately oblique cell, in which the
    perpendicular widths and the edge lengths differ little"""
    from chmpy.crystal import Crystal, UnitCell, SpaceGroup, AsymmetricUnit
    from chmpy.core.element import Element
    bad = []
    for angles in ((90.0, 130.0, 90.0), (90.0, 52.0, 90.0), (90.0, 90.0, 128.0), (70.0, 125.0, 65.0)):
        for sgn in (1, 2, 4):
            if sgn == 4 and not (angles[0] == 90.0 and angles[2] == 90.0):
                continue
            cell = UnitCell.from_lengths_and_angles([10.0, 11.0, 9.5], list(angles), unit="degrees")
            D = np.asarray(cell.direct, float)
            for face in range(3):
                for inside in (0.01, 0.004):
                    f1 = np.array([0.37, 0.29, 0.41])
                    f1[face] = inside
                    p1 = f1 @ D
                    nrm = np.cross(D[(face + 1) % 3], D[(face + 2) % 3])
                    nrm /= np.linalg.norm(nrm)
                    if (nrm @ np.linalg.inv(D))[face] < 0:
                        nrm = -nrm
                    p2 = p1 - 1.54 * nrm                    # partner beyond the face, along its normal
                    frac = np.array([p1, p2]) @ np.linalg.inv(D)
                    tag = "angles %s, space group %d, bond across face %d with the inner atom %.3g inside" % (angles, sgn, face, inside)
                    try:
                        c = Crystal(cell, SpaceGroup(sgn), AsymmetricUnit([Element[6], Element[6]], frac))
                        mols = c.unit_cell_molecules()
                        nops = len(c.space_group.symmetry_operations)
                        if len(mols) != nops or any(len(m) != 2 or abs(np.linalg.norm(m.positions[0] - m.positions[1]) - 1.54) > 1e-6 for m in mols):
                            bad.append("%s: %d molecules of sizes %s instead of %d whole C2 units" % (tag, len(mols), [len(m) for m in mols], nops))
                        elif len(c.symmetry_unique_molecules()) != 1:
                            bad.append("%s: %d symmetry-unique molecules instead of 1" % (tag, len(c.symmetry_unique_molecules())))
                    except Exception as e:
                        bad.append("%s: %s: %s" % (tag, type(e).__name__, e))
                    if bad:
                        return True, bad
    return False, ["oblique cells: none fails"]


def part_oblique(ctx):
    r, det = replay_oblique({})
    ctx.record("whole molecules for a bond crossing each cell face along its normal in strongly oblique cells (4 cells x P1, P-1, P2_1 x 3 faces x 2 depths; real classes)",
               "counterexample" if r else "holds", nontrivial=True, method="ground instances")
    if r:
        ctx.violation("oblique:cell", det[0], {}, replay_oblique)


def replay_mass(data):
    """real API: a diatomic molecule (element Z bonded to carbon, or to oxygen for Z = 6) along the a axis of an orthogonal P1 cell,
    placed so that the cell face lies midway between its centre of mass by standard atomic weights and by the library's table: the
    molecule returned by unit_cell_molecules must have its centre of mass (standard weights) inside the cell, up to the shift a
    relative mass error of MASS_RTOL can cause"""
    from chmpy.crystal import Crystal, UnitCell, SpaceGroup, AsymmetricUnit
    from chmpy.core.element import Element
    from .ref_elements import MASSES, MASS_RTOL
    z = int(data["Z"])
    zp = 8 if z == 6 else 6
    ea, eb = Element[z], Element[zp]
    d = min(ea.cov + eb.cov, 3.0)
    a = 12.0
    ma, mb, la, lb = MASSES[z - 1], MASSES[zp - 1], float(ea.mass), float(eb.mass)
    f_true, f_lib = mb / (ma + mb), lb / (la + lb)       # centre of mass = x_A + f d
    mid = 0.5 * (f_true + f_lib) * d
    bad = []
    uc = UnitCell.from_lengths_and_angles([a, 9.0, 10.0], [np.pi / 2] * 3)
    for face in (0.0, a):
        xa = face - mid
        cart = np.array([[xa, 4.0, 5.0], [xa + d, 4.0, 5.0]])
        c = Crystal(uc, SpaceGroup(1), AsymmetricUnit([ea, eb], uc.to_fractional(cart)))
        mols = c.unit_cell_molecules()
        if len(mols) != 1 or len(mols[0]) != 2:
            return False, ["outside the domain: the two atoms are not one molecule"]
        m = mols[0]
        w = np.array([MASSES[int(e.atomic_number) - 1] for e in m.elements])
        com = (np.asarray(m.positions, float) * w[:, None]).sum(axis=0) / w.sum()
        fr = float(uc.to_fractional(com[None])[0][0])
        tol = MASS_RTOL * d / a
        if fr < -tol or fr >= 1 + tol:
            bad.append("molecule %s-%s: centre of mass (standard atomic weights) at fractional x = %.5f, outside the reference cell (library mass of %s = %s, standard %s)"
                       % (ea.symbol, eb.symbol, fr, ea.symbol, la, ma))
    return bool(bad), bad


def part_masses(ctx):
    """the atomic masses Molecule.center_of_mass weighs with are the standard atomic weights (finite table, all 103 rows)"""
    from chmpy.core.element import Element
    from .ref_elements import MASSES, MASS_RTOL
    ctx.stub("centre of mass: the weights are the masses of the library's element table; that these are the standard atomic weights (to %g relative) is checked row by row" % MASS_RTOL)
    wrong = [z for z in range(1, 104) if abs(float(Element[z].mass) - MASSES[z - 1]) > MASS_RTOL * MASSES[z - 1]]
    ctx.record("element table: 103 masses agree with the standard atomic weights to %g relative (ground, all rows)" % MASS_RTOL,
               "holds" if not wrong else "counterexample", nontrivial=True, method="ground instances / enumeration", sample={"Z": wrong[:3]})
    for z in wrong:
        ctx.violation("mass:%d" % z, "centre of mass: the library weighs %s with mass %s (standard atomic weight %s)" % (Element[z].symbol, Element[z].mass, MASSES[z - 1]),
                      {"Z": z}, replay_mass)


REPLAY["mass"] = replay_mass
REPLAY["oblique"] = replay_oblique


# ----------------------------------------------------------------------------------------- run
def run(ctx):
    from chmpy.crystal.crystal import Crystal
    from chmpy.core.molecule import Molecule
    ctx.encode(Crystal.unit_cell_connectivity, Crystal.unit_cell_molecules, Crystal.symmetry_unique_molecules, Molecule.from_arrays, Molecule.__init__,
               Molecule.center_of_mass.fget, Molecule.translate, Crystal.to_cartesian, Crystal.to_fractional)
    ctx.bound("unit cells of 3 atoms (thorough: also 4 atoms in a chain / two pairs) with symbolic fractional coordinates in [0,1); every pair of atoms has at most one candidate contact: "
              "in the reference cell or through a neighbour block whose cell vector is a symbolic integer vector c in {-1,0,1}^3 (blocks +-c1; thorough also +-c1, +-c2); "
              "its length is a free symbolic real > 0.4 (far / near but not bonded / bonded all explored); both breadth-first orders; one concrete triclinic cell with rational entries; "
              "symmetry_unique_molecules: families of Z' <= 2 (thorough 3) molecules of 1-3 atoms with 1-2 images each and symbolic generator codes")
    ctx.assume("reals for doubles (centre-of-mass weights are the rational images of the doubles the code forms); a ring of bonds closes (finite molecule); no atom is bonded to its own image; "
               "distinct atoms are further than 0.4 A apart")
    ctx.stub("Crystal.slab: reference cell first, then blocks of n_uc rows with frac = f + cell (the layout C03 proves for the real slab); cKDTree.sparse_distance_matrix: the candidate contacts "
             "with symbolic lengths, both orientations, row-major; dok_matrix: dictionary of keys; csgraph.connected_components: partition induced by the stored edges, labels by lowest node; "
             "csgraph.breadth_first_order: a breadth-first order with predecessors (neighbours ascending and descending both run); Molecule.guess_bonds: no-op")
    ctx.out_of_scope("the number Z' x |G| of molecules (follows from C01 and the partition); Molecule.guess_bonds on the finished molecule; general cells (one concrete cell: the cell enters only through "
                     "to_cartesian/to_fractional, C12); molecules on special positions; more than one contact between the same two atoms")
    ctx.max_reports = 3
    Z3_, asym3 = [6, 1, 8], [2, 0, 1]
    sections = []

    def cell_section(n, Z, asym, nblocks, allow_near, pairs, first, desc, tag):
        def fn(sub):
            run_cell(sub, Mods(), n, Z, asym, nblocks, allow_near, pairs=pairs, tag=tag, first=first, descending=desc)
        return fn
    for first in range(4):
        for desc in (0, 1):
            sections.append(("3 atoms, blocks +-c1, first pair choice %d, bfs %d" % (first, desc), cell_section(3, Z3_, asym3, 2, True, None, [first], desc, "")))
    if ctx.tier == "thorough":
        for first in range(6):
            for desc in (0, 1):
                sections.append(("3 atoms, blocks +-c1 +-c2, first %d, bfs %d" % (first, desc), cell_section(3, Z3_, asym3, 4, False, None, [first], desc, "two block pairs: ")))
        Z4, asym4 = [6, 1, 8, 7], [2, 0, 3, 1]
        for pairs, nm in (([(0, 1), (1, 2), (2, 3)], "chain 0-1-2-3"), ([(0, 3), (1, 3), (2, 3)], "star on 3"), ([(0, 2), (1, 3)], "two pairs"), ([(0, 3), (0, 1), (1, 2)], "chain 3-0-1-2")):
            for first in range(4):
                sections.append(("4 atoms %s, first %d" % (nm, first), cell_section(4, Z4, asym4, 2, False, pairs, [first], first % 2, "%s: " % nm)))
    fams = [((1,), 1), ((2,), 2), ((3,), 2), ((1, 1), 2), ((2, 1), 2), ((1, 2), 2), ((2, 2), 2), ((3, 2), 2), ((2, 3), 2), ((3, 1), 2)]
    if ctx.tier == "thorough":
        fams += [((3, 2), 1), ((2, 3), 1), ((3, 3), 1), ((1, 2, 1), 2), ((2, 1, 3), 1), ((3, 3), 2), ((4, 2), 2)]

    def uniq_section(sizes, nops, rev):
        def fn(sub):
            run_unique(sub, Mods(), sizes, nops, rev)
        return fn
    for sizes, nops in fams:
        for rev in (False, True):
            sections.append(("unique %s x%d %s" % (sizes, nops, rev), uniq_section(sizes, nops, rev)))
    sections.append(("masses", part_masses))
    sections.append(("oblique", part_oblique))
    from . import c03 as _c03
    sections += _c03.dependency_sections({"slab"})
    ctx.parallel_sections(sections, nproc=16)
