"""C15  CIF text written by the library parses back to the same data.

(1) z3 regular-expression inclusion: every text the writers can print for a number is fully
    matched by the module's NUM_ERR_REGEX (translated from the compiled pattern object).
(2) symtext: Cif.to_string -> Cif.from_string on dictionaries holding symbolic floats/ints
    (placeholders of the printed length) next to strings with blanks: values, types (number vs
    string), names and row alignment survive.
(3) CrossHair contracts over symbolic strings (c15_contracts.py).
(4) structure: block/item/loop shapes enumerated (finite family)."""
import itertools
import os
import re
import time
from fractions import Fraction

import numpy as np
import z3

from .. import symx, symtext, chx
from ..symx import Sym, SymBool, Explorer, load_shimmed, model_value
from ..symtext import TextModel, sym_float, sym_int

CONTRACTS = os.path.join(os.path.dirname(__file__), "c15_contracts.py")


# -------------------------------------------------------------------------------- regex -> z3
def re_to_z3(pattern):
    """subset of `re` syntax (literals, classes, groups, | * + ? {m,n}, \\d \\s \\S .) -> z3 Re over strings"""
    try:
        import re._parser as sp
    except ImportError:
        import sre_parse as sp
    tree = sp.parse(pattern)

    def charset(items):
        alts = []
        neg = False
        for op, av in items:
            name = str(op)
            if name == "NEGATE":
                neg = True
            elif name == "LITERAL":
                alts.append(z3.Re(chr(av)))
            elif name == "RANGE":
                alts.append(z3.Range(chr(av[0]), chr(av[1])))
            elif name == "CATEGORY":
                alts.append(category(av))
            else:
                raise symx.SymUnsupported("regex class item %s" % name)
        u = alts[0] if len(alts) == 1 else z3.Union(*alts)
        if neg:
            return z3.Intersect(z3.AllChar(z3.ReSort(z3.StringSort())), z3.Complement(u))
        return u

    def category(av):
        n = str(av)
        if n.endswith("CATEGORY_DIGIT"):
            return z3.Range("0", "9")
        if n.endswith("CATEGORY_SPACE"):
            return z3.Union(z3.Re(" "), z3.Re("\t"), z3.Re("\n"), z3.Re("\r"), z3.Re("\x0b"), z3.Re("\x0c"))
        if n.endswith("CATEGORY_NOT_SPACE"):
            sp_ = z3.Union(z3.Re(" "), z3.Re("\t"), z3.Re("\n"), z3.Re("\r"), z3.Re("\x0b"), z3.Re("\x0c"))
            return z3.Intersect(z3.AllChar(z3.ReSort(z3.StringSort())), z3.Complement(sp_))
        raise symx.SymUnsupported("regex category %s" % n)

    def conv(seq):
        parts = []
        for op, av in seq:
            name = str(op)
            if name == "LITERAL":
                parts.append(z3.Re(chr(av)))
            elif name == "IN":
                parts.append(charset(av))
            elif name == "ANY":
                parts.append(z3.AllChar(z3.ReSort(z3.StringSort())))
            elif name == "CATEGORY":
                parts.append(category(av))
            elif name == "SUBPATTERN":
                parts.append(conv(av[3]))
            elif name == "BRANCH":
                parts.append(z3.Union(*[conv(b) for b in av[1]]))
            elif name in ("MAX_REPEAT", "MIN_REPEAT"):
                lo, hi, sub = av
                r = conv(sub)
                if lo == 0 and str(hi) == "MAXREPEAT":
                    parts.append(z3.Star(r))
                elif lo == 1 and str(hi) == "MAXREPEAT":
                    parts.append(z3.Plus(r))
                elif lo == 0 and hi == 1:
                    parts.append(z3.Option(r))
                else:
                    parts.append(z3.Loop(r, lo, hi if str(hi) != "MAXREPEAT" else 0))
            else:
                raise symx.SymUnsupported("regex op %s" % name)
        if not parts:
            return z3.Re("")
        return parts[0] if len(parts) == 1 else z3.Concat(*parts)
    return conv(tree)


# -------------------------------------------------------------------------------- replay
def replay_cif(data):
    """real API round trip of a dictionary given in JSON (floats/ints/strings)"""
    from chmpy.fmt.cif import Cif
    d = data["cif"]
    try:
        text = Cif(d).to_string()
        back = Cif.from_string(text).data
    except Exception as e:
        return True, ["round trip raises %s: %s" % (type(e).__name__, e)]
    bad = []

    def same(a, b):
        if isinstance(a, str) or isinstance(b, str):
            return a == b
        return abs(float(a) - float(b)) <= 0.5e-12 + 1e-15 * abs(float(a))
    if list(back.keys()) != list(d.keys()) and set(back.keys()) != set(d.keys()):
        bad.append("block names differ: %s vs %s" % (list(back), list(d)))
    for bn, blk in d.items():
        got = back.get(bn, {})
        if set(got) != set(blk):
            bad.append("block %s: item names differ: %s vs %s" % (bn, sorted(got), sorted(blk)))
            continue
        for k, v in blk.items():
            g = got[k]
            if isinstance(v, (list, tuple)):
                if not isinstance(g, list) or len(g) != len(v) or not all(same(x, y) for x, y in zip(v, g)):
                    bad.append("loop column %s.%s changed: %r -> %r" % (bn, k, v, g))
            elif not same(v, g):
                bad.append("item %s.%s changed: %r -> %r" % (bn, k, v, g))
    return bool(bad), bad


def replay_contract(data):
    import importlib
    mod = importlib.import_module("verif.props.c15_contracts")
    importlib.reload(mod)
    fn = getattr(mod, data["contract"])
    try:
        r = fn(*data["args"])
    except Exception as e:
        return True, "%s%r raises %s: %s" % (data["contract"], tuple(data["args"]), type(e).__name__, e)
    return (not r), "%s%r returns %r" % (data["contract"], tuple(data["args"]), r)


def replay_parse(data):
    from chmpy.fmt.cif import parse_value
    bad = []
    for txt, want in data["cases"]:
        try:
            got = parse_value(txt)
        except Exception as e:
            bad.append("parse_value(%r) raises %s" % (txt, type(e).__name__))
            continue
        if isinstance(want, str):
            ok = got == want
        else:
            ok = not isinstance(got, str) and abs(float(got) - float(want)) <= 1e-12 * max(1.0, abs(float(want)))
        if not ok:
            bad.append("parse_value(%r) = %r, expected %r" % (txt, got, want))
    return bool(bad), bad


REPLAY = {"cif": replay_cif, "ch": replay_contract, "parse": replay_parse}


# -------------------------------------------------------------------------------- run
def run(ctx):
    from chmpy.fmt import cif as real
    ctx.encode(real.parse_value, real.parse_quote, real.needs_quote, real.is_scalar, real.format_field, real.Cif.to_string, real.Cif.from_string.__func__,
               real.Cif.parse, real.Cif.parse_data_name, real.Cif.parse_loop_block, real.Cif.parse_data_block_name, real.Cif.is_data_line)
    thorough = ctx.tier == "thorough"
    ctx.bound("regex inclusion: all strings (unbounded); symtext: one number of up to 10 integer digits, otherwise |x| < 100 (whitespace-separated fields: magnitude only matters through the field width), 1-2 blocks, scalar and 2-3 column loops of 1-3 rows; "
              "CrossHair: strings of length <= 4 (scalar) / 3 (loops) over a 12-character alphabet; structure family: %d shapes" % (200 if thorough else 60))
    ctx.assume("domain of strings (the property's): non-empty, no quote characters, blanks single and interior, not starting with _ # ; $, not reserved words, not spelled like numbers; "
               "an integer-valued float parses back as int by design ('same type' = number vs string, numerically equal)")
    ctx.stub("symtext: formatted numbers are placeholder strings of the printed length; NUM_ERR_REGEX.match on a whole placeholder = full match (justified by the inclusion lemma); float() of it = printed value")
    ctx.out_of_scope("strings with quote characters, tabs, leading/trailing/doubled blanks or empty; nan/inf; multi-line text fields")
    ctx.parallel_sections([("regex", part_regex), ("symtext", part_symtext), ("crosshair", lambda c: part_crosshair(c, thorough)), ("structure", lambda c: part_structure(c, thorough))])


def part_regex(ctx):
    from chmpy.fmt import cif as real
    R = re_to_z3(real.NUM_ERR_REGEX.pattern)
    # translator sanity on concrete strings (the compiled pattern object is the reference)
    ok = True
    for s_ in ("1", "-1.5", "+.5", "1.", "1e5", "2.3(1)", "abc", "1.2.3", "", "-", "1e", "12(3", ".", "1,5", "  1"):
        m = real.NUM_ERR_REGEX.match(s_)
        full = bool(m and m.span()[1] == len(s_))
        sol = z3.Solver()
        sol.add(z3.InRe(z3.StringVal(s_), R))
        ok = ok and ((str(sol.check()) == "sat") == full)
    ctx.fidelity_check("regex -> z3 translation agrees with the compiled NUM_ERR_REGEX on 15 probe strings", ok)
    s = z3.String("s")
    digit = z3.Range("0", "9")
    sign = z3.Option(z3.Re("-"))
    L_f = z3.Concat(sign, z3.Plus(digit), z3.Re("."), z3.Loop(digit, 12, 12))                   # '%20.12f' stripped
    L_d = z3.Concat(sign, z3.Plus(digit))                                                          # '%20d' stripped
    exp_ = z3.Concat(z3.Re("e"), z3.Union(z3.Re("-"), z3.Re("+")), z3.Plus(digit))
    L_repr = z3.Union(z3.Concat(sign, z3.Plus(digit), z3.Re("."), z3.Plus(digit), z3.Option(exp_)), z3.Concat(sign, z3.Plus(digit), exp_))   # repr(float), finite
    L_unc = z3.Concat(L_f, z3.Re("("), z3.Plus(digit), z3.Re(")"))
    lemmas = [("'%20.12f' texts", L_f), ("'%20d' texts", L_d), ("repr(float) texts of finite floats", L_repr), ("numbers with a standard uncertainty in parentheses", L_unc)]
    bad = []
    for nm, L in lemmas:
        r = ctx.query("regex: every string of the language of %s is fully matched by NUM_ERR_REGEX (language inclusion)" % nm, [z3.InRe(s, L)], z3.InRe(s, R))
        if r.verdict == "cex":
            bad.append((nm, r.model.eval(s, model_completion=True).as_string()))
    # the number group excludes the uncertainty: group 1 language followed by '(ddd)' -- value = the number
    r = ctx.query("regex: no written number contains a blank or a quote (so whitespace tokenisation and quote stripping cannot cut it)",
                  [z3.InRe(s, z3.Union(L_f, L_d, L_repr))], z3.Not(z3.Or(z3.Contains(s, z3.StringVal(" ")), z3.Contains(s, z3.StringVal("'")), z3.Contains(s, z3.StringVal('"')))))
    if r.verdict == "cex":
        bad.append(("blank in number", ""))
    if bad:
        txt = bad[0][1] or "1.500000000000"
        ctx.violation("parse:regex", "a number text %r of the class '%s' is not recognised as a number" % (txt, bad[0][0]),
                      {"cases": [[txt, float(re.sub(r"\\(\\d+\\)$", "", txt)) if re.match(r"^-?\\d", txt) else 0.0], ["2.3(1)", 2.3], ["-0.500000000000", -0.5]]}, replay_parse)


class _NumRegex:
    """NUM_ERR_REGEX inside the shimmed module: whole numeric placeholders match fully (inclusion lemma), everything else
    goes to the real pattern"""

    def __init__(self, real, tm):
        self.real, self.tm = real, tm

    def match(self, string):
        t = string
        if self.tm.has_placeholder(t):
            core = t[1:] if t.startswith("+") else t
            if core in self.tm.reg:
                return _FakeMatch(t)
            return None
        return self.real.match(string)


class _FakeMatch:
    def __init__(self, t):
        self.t = t

    def span(self):
        return (0, len(self.t))

    def groups(self):
        return (self.t, self.t, None, None, None)


def _isinstance(x, t):
    ts = t if isinstance(t, tuple) else (t,)
    ts = tuple(float if q is sym_float else int if q is sym_int else q for q in ts)   # the module's float/int names are shims
    t = ts if isinstance(t, tuple) else ts[0]
    if isinstance(x, Sym):
        if float in ts and not (x.is_int or x.intlike):
            return True
        if int in ts and (x.is_int or x.intlike):
            return True
        return False
    return isinstance(x, t)


def part_symtext(ctx):
    from chmpy.fmt import cif as real
    tm_holder = {}
    mc = load_shimmed("chmpy.fmt.cif", pre={"float": sym_float, "int": sym_int, "isinstance": _isinstance})
    Sym.is_integer = lambda self: SymBool(z3.IsInt(self.real()))
    x, y = Sym(z3.Real("x")), Sym(z3.Real("y"))
    n = Sym(z3.Int("n"))
    shapes = [
        ("one number of up to 10 integer digits in a loop next to a string (field wider than 20 columns)", {"blk": {"atom_x": [x, 2.5], "atom_label": ["C 1", "H2"]}}),
        ("scalars", {"blk": {"cell_a": x, "count_n": n, "name_s": "two words", "name_t": "plain"}}),
        ("loop of floats, strings with blanks and ints", {"blk": {"atom_x": [x, y], "atom_label": ["C 1", "H2"], "atom_n": [n, 7]}}),
        ("scalar items whose names have 1 to 74 characters (numbers, plain and quoted strings)",
         {"blk": dict([(("k%02d_" % k + "diffrn_measured_fraction_theta_full_refine_ls_extinction_coefficient_x")[:k] if k > 1 else "q",
                        (x if k == 34 else n if k == 33 else "two words" if k % 2 else "plain")) for k in (1, 2, 5, 16, 31, 32, 33, 34, 35, 48, 74)]
                      + [("diffrn_measured_fraction_theta_full", y), ("diffrn_reflns_theta_full", 25.5)])}),
        ("two blocks, scalar + two loops of different length", {"first": {"a_x": [x, 1.5, y], "a_s": ["p", "q r", "s"], "b_n": [n], "title": "some text"},
                                                                "second": {"c_v": y, "c_w": [2, 3]}}),
    ]
    bad = []
    for nm, d in shapes:
        lim = 10 ** 10 if nm.startswith("one number") else (10 if nm.startswith("two blocks") else 100)
        ex = Explorer(assumptions=[x.t > -lim, x.t < lim, y.t > -lim, y.t < lim, n.t > -lim, n.t < lim], max_paths=6000)
        tm = TextModel(ex, max_int_digits=11)
        # repr()/str() of a symbolic float (scalar items are written with f"{value}"): one token without blanks
        orig_fmt = tm.fmt

        def fmt(v, spec, _o=orig_fmt):
            if spec == "" and not (v.is_int or v.intlike):
                return _o(v, ".17f")
            if spec == "":
                return _o(v, "d")
            return _o(v, spec)
        tm.fmt = fmt
        symtext.install(tm)
        mc.NUM_ERR_REGEX = _NumRegex(real.NUM_ERR_REGEX, tm)

        def rt():
            tm.reset()
            text = mc.Cif(d).to_string()
            back = mc.Cif.from_string(text).data
            return text, back, dict(tm.reg)
        t0 = time.time()
        try:
            paths = ex.run(rt)
        except symx.SymUnsupported as e:
            # a number format the text model does not cover: the symbolic part is inconclusive; boundary magnitudes are replayed concretely
            symtext.install(None)
            ctx.mark_inconclusive("symtext: " + nm, "writer uses a construct the text model does not cover (%s)" % e)
            for vals in ((1.5, -2.25, 3), (123456789.123456789, -0.000000000123, -7), (99999.999999999999, 1e-13, 10 ** 9), (-1e15, 0.1 + 0.2, 0)):
                conc = _concretise(d, None, [(x, vals[0]), (y, vals[1]), (n, vals[2])])
                okr, det = replay_cif({"cif": conc})
                if okr:
                    bad.append((nm, "concrete boundary values: %s" % det[0], conc))
                    break
            continue
        ctx.add_paths(ex)
        symtext.install(None)
        nchecked = 0
        why = None
        for p in paths:
            r_, s_ = ex.check(p.pc, timeout_ms=10000)
            if r_ == "unsat":
                continue
            nchecked += 1
            if p.exc is not None:
                why = "%s: %s" % (type(p.exc).__name__, p.exc)
            else:
                text, back, reg = p.value
                why = _compare(d, back, reg, ex, p.pc)
            if why:
                mdl = s_.model() if r_ == "sat" else None
                conc = _concretise(d, mdl, [(x, 1.5), (y, -2.25), (n, 3)])
                bad.append((nm, why, conc))
                break
        ctx.record("symtext: %s -- %d feasible sign/digit classes: names, values, number-vs-string class and row alignment survive" % (nm, nchecked),
                   "holds" if why is None else "counterexample", seconds=time.time() - t0, nontrivial=True)
    for nm, why, conc in bad[:2]:
        ctx.violation("cif:roundtrip", "CIF round trip of a dictionary with %s fails: %s" % (nm, why), {"cif": conc}, replay_cif)


def _compare(d, back, reg, ex=None, pc=()):
    if set(back) != set(d):
        return "block names %s != %s" % (sorted(back), sorted(d))
    for bn, blk in d.items():
        got = back[bn]
        if set(got) != set(blk):
            return "items of block %s: %s != %s" % (bn, sorted(got), sorted(blk))
        for k, v in blk.items():
            g = got[k]
            vs, gs = (v, g) if isinstance(v, list) else ([v], [g])
            if isinstance(v, list) != isinstance(g, list) or len(vs) != len(gs):
                return "item %s.%s: scalar/loop shape changed" % (bn, k)
            for a, b in zip(vs, gs):
                if isinstance(a, Sym):
                    want = [r for (r, xx, spec) in reg.values() if xx is a]
                    okv = isinstance(b, Sym) and any(b is r for r in want)
                    if not okv and isinstance(b, Sym) and ex is not None:
                        # e.g. int(number) on the path where the printed value is integral: decided by the solver
                        okv = any(ex.check(list(pc) + [(b != r).t], timeout_ms=10000)[0] == "unsat" for r in want)
                    if not okv:
                        return "item %s.%s: number not read back from its own field (got %r)" % (bn, k, b)
                elif isinstance(a, str):
                    if a != b:
                        return "item %s.%s: string %r read back as %r" % (bn, k, a, b)
                else:
                    if isinstance(b, (str, Sym)) or abs(float(a) - float(b)) > 1e-12:
                        return "item %s.%s: number %r read back as %r" % (bn, k, a, b)
    return None


def _concretise(d, mdl, default):
    def val(v):
        if isinstance(v, Sym):
            if mdl is not None:
                try:
                    f = model_value(mdl, v.t)
                    return int(f) if (v.is_int or v.intlike) else float(f)
                except Exception:
                    pass
            for k, dv in default:
                if k is v:
                    return dv
            return 1.0
        return v
    return {bn: {k: ([val(e) for e in v] if isinstance(v, list) else val(v)) for k, v in blk.items()} for bn, blk in d.items()}


def part_crosshair(ctx, thorough):
    timeout = 300 if thorough else 60
    res = chx.run_all(CONTRACTS, timeout)
    for name, (r, is_twin) in res.items():
        rec = {"name": "crosshair:" + name, "verdict": r["verdict"], "seconds": r["seconds"], "solver": "crosshair 0.0.110 / z3", "detail": r["detail"], "nontrivial": True}
        if is_twin:
            rec["expect"] = "counterexample (reachability twin, post: False)"
            ctx.queries.append(rec)
            if r["verdict"] != "counterexample":
                ctx.mark_inconclusive("crosshair:" + name, "reachability twin not refuted: %s" % r["detail"])
            continue
        ctx.queries.append(rec)
        if r["verdict"] == "unknown":
            ctx.mark_inconclusive("crosshair:" + name, r["detail"])
        elif r["verdict"] == "counterexample":
            args = chx.parse_call(r["detail"], name)
            if args is None:
                ctx.harness_error("could not parse CrossHair counterexample: %s" % r["detail"])
                continue
            ctx.violation("ch:" + name, "contract %s fails: %s" % (name, r["detail"][:200]), {"contract": name, "args": list(args)}, replay_contract)


def part_structure(ctx, thorough):
    """finite family of shapes: blocks x (scalar / loop columns by name prefix and length) x rows, opaque tokens"""
    from chmpy.fmt.cif import Cif
    rng = np.random.default_rng(ctx.seed)
    toks = ["C1", "two words", "x-y, z", "H2A", "?", ".", "P 21/c", "a#b", "1.2.3", "O 1 W"]
    nshapes = 200 if thorough else 60
    bad = None
    t0 = time.time()
    count = 0
    for _ in range(nshapes):
        d = {}
        for b in range(int(rng.integers(1, 3))):
            blk = {}
            for g in range(int(rng.integers(1, 4))):
                prefix = ["g%d", "atom_site_U%d", "refln_F%d", "Geom%d"][int(rng.integers(0, 4))] % g      # item names keep their letter case
                for c in range(int(rng.integers(1, 4))):
                    kind = int(rng.integers(0, 3))
                    name = "%s_c%d" % (prefix, c)
                    if kind == 0:
                        blk[name] = [toks[int(i)] for i in rng.integers(0, len(toks), 1)][0] if rng.random() < 0.5 else float(np.round(rng.normal() * 10 ** int(rng.integers(-3, 6)), 6))
                    else:
                        ln = int(rng.integers(0, 4)) if kind == 2 else 2
                        blk[name] = [toks[int(rng.integers(len(toks)))] if rng.random() < 0.5 else (int(rng.integers(-50, 50)) if rng.random() < 0.5 else float(np.round(rng.normal() * 100, 4)))
                                     for _ in range(ln)]
            d["blk%d" % b] = blk
        count += 1
        r, det = replay_cif({"cif": d})
        if r:
            bad = (d, det)
            break
    ctx.record("structure: %d dictionaries (1-2 blocks, 1-3 name groups, scalar items and loop columns of length 0-3, opaque string tokens incl. blanks) round trip (enumeration)" % count,
               "holds" if bad is None else "counterexample", seconds=time.time() - t0, nontrivial=True, method="enumeration")
    if bad is not None:
        ctx.violation("cif:structure", "CIF round trip changes a dictionary: %s" % bad[1][0], {"cif": bad[0]}, replay_cif)
