"""C12  Unit-cell geometry is self-consistent however the cell was specified.

The real UnitCell methods are executed on symbolic lengths and (cos,sin) angle pairs;
every identity of the property is then one NRA query (negated, expect unsat)."""
import math
import time

import numpy as np
import z3

from .. import symx
from ..symx import Sym, SymAngle, Explorer, load_shimmed, det3, model_value

KEY = "unit_cell"


def _load():
    m = load_shimmed("chmpy.crystal.unit_cell")
    # cell_type naming is outside the property; it branches on np.allclose of angles
    m.UnitCell._set_cell_type = lambda self: None
    return m


def _sym_params(ex, degrees=False):
    a, b, c = (Sym(z3.Real(n)) for n in "abc")
    ca, cb, cg = (Sym(z3.Real(n)) for n in ("ca", "cb", "cg"))
    sa, sb, sg = (Sym(z3.Real(n)) for n in ("sa", "sb", "sg"))
    unit = "deg" if degrees else "rad"
    angles = [SymAngle(ca, sa, unit, "alpha"), SymAngle(cb, sb, unit, "beta"), SymAngle(cg, sg, unit, "gamma")]
    assume = [a.t > 0, b.t > 0, c.t > 0]
    for cc, ss in ((ca, sa), (cb, sb), (cg, sg)):
        assume += [cc.t * cc.t + ss.t * ss.t == 1, ss.t > 0]
    gram = 1 - ca * ca - cb * cb - cg * cg + 2 * ca * cb * cg
    assume.append(gram.t > 0)
    return (a, b, c), angles, assume


def _real_params_from_model(model, names=("a", "b", "c", "ca", "cb", "cg")):
    v = {n: float(model_value(model, z3.Real(n))) for n in names}
    return v


def oracle(uc, lengths=None, cosines=None, tol=1e-8):
    """Numeric statement of the property on a *real* UnitCell.  Returns list of failures."""
    bad = []
    D, I = np.asarray(uc.direct, float), np.asarray(uc.inverse, float)
    scale = max(1.0, np.abs(D).max() * np.abs(I).max())
    if not np.allclose(D @ I, np.eye(3), rtol=0, atol=tol * scale):
        bad.append("direct.inverse != I")
    ln = np.linalg.norm(D, axis=1)
    if not np.allclose(ln, np.asarray(uc.lengths, float), rtol=tol):
        bad.append("row norms != lengths")
    cosr = [D[1] @ D[2] / ln[1] / ln[2], D[0] @ D[2] / ln[0] / ln[2], D[0] @ D[1] / ln[0] / ln[1]]
    if not np.allclose(cosr, np.cos(np.asarray(uc.angles, float)), rtol=0, atol=tol):
        bad.append("inter-row angles != reported angles")
    if not np.isclose(uc.volume(), abs(np.linalg.det(D)), rtol=tol):
        bad.append("volume != det(direct)")
    x = np.array([[0.3, -1.7, 2.9], [5.5, 0.1, -0.2]])
    if not np.allclose(uc.to_fractional(uc.to_cartesian(x)), x, rtol=0, atol=tol * scale):
        bad.append("to_fractional(to_cartesian(x)) != x")
    rs = np.linalg.norm(I, axis=0)
    if not np.allclose([uc.a_star, uc.b_star, uc.c_star], rs, rtol=tol):
        bad.append("starred lengths != reciprocal vector norms")
    cs = [I[:, 1] @ I[:, 2] / rs[1] / rs[2], I[:, 0] @ I[:, 2] / rs[0] / rs[2], I[:, 0] @ I[:, 1] / rs[0] / rs[1]]
    if not np.allclose(np.cos([uc.alpha_star, uc.beta_star, uc.gamma_star]), cs, rtol=0, atol=tol):
        bad.append("starred angles != reciprocal vector angles")
    if not np.allclose(uc.reciprocal_lattice, I.T):
        bad.append("reciprocal_lattice != inverse.T")
    if lengths is not None and not np.allclose(uc.lengths, lengths, rtol=tol):
        bad.append("lengths != requested lengths")
    if cosines is not None and not np.allclose(np.cos(np.asarray(uc.angles, float)), cosines, rtol=0, atol=tol):
        bad.append("angles != requested angles")
    return bad


def replay_lengths_angles(data):
    from chmpy.crystal.unit_cell import UnitCell
    lengths = [data["a"], data["b"], data["c"]]
    cos = [data["ca"], data["cb"], data["cg"]]
    ang = [math.acos(max(-1, min(1, x))) for x in cos]
    how = data.get("how", "radians")
    if how in ("degrees", "arrays"):
        # arguments given as float64 arrays (as a caller holding cell parameters in arrays does): they are not modified, and a second
        # cell built from the same arrays is the same cell
        la, da, ra = np.array(lengths, dtype=np.float64), np.degrees(np.array(ang, dtype=np.float64)), np.array(ang, dtype=np.float64)
        la0, da0, ra0 = la.copy(), da.copy(), ra.copy()
        pre = []
        for rep in range(2):
            uc_d = UnitCell.from_lengths_and_angles(la, da, unit="degrees")
            uc_r = UnitCell.from_lengths_and_angles(la, ra)
            if not (np.array_equal(la, la0) and np.array_equal(da, da0) and np.array_equal(ra, ra0)):
                pre.append("from_lengths_and_angles modifies the arrays it is given")
                la, da, ra = la0.copy(), da0.copy(), ra0.copy()
            for tag_, u_ in (("degrees", uc_d), ("radians", uc_r)):
                pre += ["cell %d from the same %s arrays: %s" % (rep + 1, tag_, b_) for b_ in oracle(u_, lengths, cos)[:1]]
        uc = UnitCell.from_lengths_and_angles(lengths, np.degrees(ang), unit="degrees")
        bad0 = oracle(uc, lengths, cos)
        return bool(pre or bad0), (pre + bad0)[:4]
    elif how == "vectors":
        uc0 = UnitCell.from_lengths_and_angles(lengths, ang)
        uc = UnitCell(np.array(uc0.direct))
    elif how.startswith("named:"):
        name = how.split(":")[1]
        kw = {"unit": "degrees"} if data.get("deg") else {}
        conv = (lambda x: np.degrees(x)) if data.get("deg") else (lambda x: x)
        args = {"cubic": (lengths[0],), "orthorhombic": tuple(lengths), "tetragonal": (lengths[0], lengths[2]),
                "hexagonal": (lengths[0], lengths[2]), "monoclinic": (*lengths, conv(ang[1])),
                "rhombohedral": (lengths[0], conv(ang[0])), "triclinic": (*lengths, *[conv(x) for x in ang])}[name]
        if name in ("cubic", "orthorhombic"):
            kw = {}
        uc = getattr(UnitCell, name)(*args, **kw)
    elif how == "reset":
        uc = UnitCell.from_lengths_and_angles([5.1, 7.2, 9.3], [1.2, 1.7, 1.4])
        uc.volume()
        uc.a_star, uc.alpha_star, uc.reciprocal_lattice
        uc.set_lengths_and_angles(lengths, ang)
    else:
        uc = UnitCell.from_lengths_and_angles(lengths, ang)
    bad = oracle(uc, lengths, cos)
    if how == "vectors" and not np.allclose(np.asarray(uc.inverse, float), np.asarray(uc0.inverse, float), rtol=0, atol=1e-9 * max(1.0, np.abs(uc.inverse).max())):
        bad.append("inverse matrices of the two construction routes differ")
    return bool(bad), bad


def replay_vectors(data):
    from chmpy.crystal.unit_cell import UnitCell
    M = np.array(data["M"], float)
    uc = UnitCell(M)
    bad = oracle(uc)
    if not np.allclose(uc.direct, M):
        bad.append("direct != given vectors")
    return bool(bad), bad


REPLAY = {"la": replay_lengths_angles, "vec": replay_vectors}


def _identities(ctx, ex, pc, uc, tag, lengths, angles, check_star=True):
    """Issue the queries for one explored path; returns list of (name, Result)."""
    D, I = uc.direct, uc.inverse
    a, b, c = lengths
    ca, cb, cg = (x.c for x in angles)
    out = []

    def q(name, goal):
        r = ctx.query("%s:%s" % (tag, name), pc, goal.t if hasattr(goal, "t") else goal, ex=ex, logic=None)
        out.append((name, r))
        return r

    P = np.dot(D, I)
    for i in range(3):
        for j in range(3):
            q("direct.inverse[%d,%d]" % (i, j), P[i, j] == (1 if i == j else 0))
    G = np.dot(D, D.T)
    want = [[a * a, a * b * cg, a * c * cb], [a * b * cg, b * b, b * c * ca], [a * c * cb, b * c * ca, c * c]]
    for i in range(3):
        for j in range(i, 3):
            q("gram[%d,%d]" % (i, j), G[i, j] == want[i][j])
    vol = uc.volume()
    q("volume=det", vol == det3(np.asarray(D, dtype=object)))
    q("volume>0", vol > 0)
    x = np.array([[Sym(z3.Real("x%d" % k)) for k in range(3)]], dtype=object)
    rt = uc.to_fractional(uc.to_cartesian(x))
    rt2 = uc.to_cartesian(uc.to_fractional(x))
    for k in range(3):
        q("frac(cart(x))[%d]" % k, rt[0, k] == x[0, k])
        q("cart(frac(x))[%d]" % k, rt2[0, k] == x[0, k])
    if check_star:
        stars = [uc.a_star, uc.b_star, uc.c_star]
        for k, nm in enumerate("abc"):
            col = I[:, k]
            q("%s_star" % nm, (stars[k] * stars[k] == col[0] * col[0] + col[1] * col[1] + col[2] * col[2]).__and__(stars[k] > 0))
        sa = [uc.alpha_star, uc.beta_star, uc.gamma_star]
        pairs = [(1, 2), (0, 2), (0, 1)]
        for k, nm in enumerate(("alpha", "beta", "gamma")):
            i, j = pairs[k]
            dot = sum(I[r, i] * I[r, j] for r in range(3))
            q("%s_star" % nm, sa[k].c * stars[i] * stars[j] == dot)
        R = uc.reciprocal_lattice
        ok = all(R[i, j] is I[j, i] or bool(z3.is_true(z3.simplify((R[i, j] == I[j, i]).t))) for i in range(3) for j in range(3))
        ctx.record("%s:reciprocal_lattice=inverse.T" % tag, "holds" if ok else "counterexample", nontrivial=True)
        if not ok:
            out.append(("reciprocal_lattice", type("R", (), {"verdict": "cex", "model": None})()))
    return out


def part_vectors(ctx, UC):
    """UnitCell(vectors) for an arbitrary right-handed matrix: direct = given, inverse = its inverse, lengths and angles those of the rows"""
    # -- route 2: vectors -> parameters -> same geometry  (set_vectors on an arbitrary matrix)
    ex = Explorer()
    M = np.array([[Sym(z3.Real("m%d%d" % (i, j))) for j in range(3)] for i in range(3)], dtype=object)
    detM = det3(M)
    ex.base = [detM.t > 0]
    paths = ex.run(lambda: UC(M))
    ctx.add_paths(ex)
    for p in paths:
        if p.exc is not None:
            ctx.harness_error("set_vectors raised %r symbolically" % (p.exc,))
            continue
        uc = p.value
        D, I = uc.direct, uc.inverse
        P = np.dot(D, I)
        P2 = np.dot(I, D)
        res = []
        for i in range(3):
            for j in range(3):
                res.append(ctx.query("vectors:direct.inverse[%d,%d]" % (i, j), p.pc, (P[i, j] == (1 if i == j else 0)).t, ex=ex))
                res.append(ctx.query("vectors:inverse.direct[%d,%d]" % (i, j), p.pc, (P2[i, j] == (1 if i == j else 0)).t, ex=ex))
                res.append(ctx.query("vectors:direct=given[%d,%d]" % (i, j), p.pc, (D[i, j] == M[i, j]).t, ex=ex))
        L = uc.lengths
        for k in range(3):
            res.append(ctx.query("vectors:length[%d]" % k, p.pc, ((L[k] * L[k] == sum(M[k, r] * M[k, r] for r in range(3))) & (L[k] > 0)).t, ex=ex))
        pairs = [(1, 2), (2, 0), (0, 1)]
        for k in range(3):
            i, j = pairs[k]
            dot = sum(M[i, r] * M[j, r] for r in range(3))
            res.append(ctx.query("vectors:cos-angle[%d]" % k, p.pc, (uc.angles[k].c * L[i] * L[j] == dot).t, ex=ex, timeout=ctx.default_timeout))
        for r in res:
            if r.verdict == "cex":
                Mv = [[float(model_value(r.model, M[i, j].t)) for j in range(3)] for i in range(3)]
                ctx.violation("vec:set_vectors", "identity fails for vectors", {"M": Mv}, replay_vectors)



def dependency_sections():
    """section other properties run because they rest on it (cells built from lattice vectors: supercells, the H/R switch, POSCAR)"""
    return [("dependency: cell built from its lattice vectors (C12 route 2)", lambda c: part_vectors(c, _load().UnitCell))]


def run(ctx):
    t0 = time.time()
    m = _load()
    UC = m.UnitCell
    from chmpy.crystal.unit_cell import UnitCell as RealUC
    ctx.encode(RealUC.set_lengths_and_angles, RealUC.set_vectors, RealUC.volume, RealUC.to_cartesian,
               RealUC.to_fractional, RealUC.from_lengths_and_angles, RealUC.cubic, RealUC.triclinic,
               RealUC.monoclinic, RealUC.tetragonal, RealUC.hexagonal, RealUC.rhombohedral, RealUC.orthorhombic,
               RealUC.a_star.fget, RealUC.b_star.fget, RealUC.c_star.fget, RealUC.alpha_star.fget,
               RealUC.beta_star.fget, RealUC.gamma_star.fget, RealUC.reciprocal_lattice.fget)
    ctx.bound("no bound on lengths (>0) or angles (sin>0, positive Gram determinant): all reals")
    ctx.assume("mathematical reals stand in for IEEE doubles")
    ctx.assume("an angle enters only through (cos,sin) with cos^2+sin^2=1, sin>0")
    ctx.stub("np.linalg.inv = adjugate/determinant; np.arccos(np.clip(x,-1,1)) keeps the cosine x; "
             "UnitCell._set_cell_type (naming only) is a no-op")
    ctx.out_of_scope("floating-point rounding; cell_type naming")

    # -- concrete fidelity: shimmed module == real module on concrete inputs
    for lens, angs in (((5.1, 7.2, 9.3), (1.2, 1.7, 1.4)), ((3.0, 3.0, 12.5), (math.pi / 2, math.pi / 2, 2 * math.pi / 3))):
        r = RealUC.from_lengths_and_angles(lens, angs)
        s = UC.from_lengths_and_angles(lens, angs)
        ok = np.allclose(np.asarray(s.direct, float), r.direct, rtol=0, atol=1e-14) and np.allclose(np.asarray(s.inverse, float), r.inverse, rtol=0, atol=1e-14)
        s2 = UC(np.array(r.direct))
        ok = ok and np.allclose(np.asarray(s2.inverse, float), RealUC(np.array(r.direct)).inverse, rtol=0, atol=1e-13)
        ctx.fidelity_check("shimmed unit_cell == real on %s" % (lens,), ok)
        ctx.concrete_note("oracle accepts the real cell %s" % (lens,), not oracle(r, lens, np.cos(angs)), str(oracle(r, lens, np.cos(angs))))

    def handle(tag, paths, ex, lengths, angles, how, extra=None, check_star=True):
        for p in paths:
            if p.exc is not None:
                r, mdl = ctx.witness("%s:exception-path-feasible" % tag, p.pc, ex=ex, expect="sat")
                if r == "sat":
                    d = _real_params_from_model(mdl)
                    d["how"] = how
                    if extra:
                        d.update(extra)
                    ctx.violation("la:%s" % tag, "raises %s: %s" % (type(p.exc).__name__, p.exc), d,
                                  lambda dd: _raises_or_bad(dd))
                continue
            with ex.post(p.pc):
                results = _identities(ctx, ex, p.pc, p.value, tag, lengths, angles, check_star)
            for name, r in results:
                if r.verdict == "cex":
                    d = _real_params_from_model(r.model) if r.model is not None else {"a": 5.0, "b": 6.5, "c": 7.25, "ca": 0.2, "cb": -0.1, "cg": 0.3}
                    d["how"] = how
                    if extra:
                        d.update(extra)
                    ctx.violation("la:%s" % tag, "identity %s fails" % name, d, replay_lengths_angles)

    # -- route 1: lengths and angles (radians and degrees)
    for deg in (False, True):
        ex = Explorer()
        lengths, angles, assume = _sym_params(ex, degrees=deg)
        ex.base = assume
        tag = "lengths_angles_deg" if deg else "lengths_angles"
        paths = ex.run(lambda: UC.from_lengths_and_angles(list(lengths), list(angles), unit="degrees" if deg else "radians"))
        ctx.add_paths(ex)
        radangles = [SymAngle(x.c, x.s, "rad") for x in angles]
        handle(tag, paths, ex, lengths, radangles, "degrees" if deg else "radians")

    # -- route 1b: an existing cell (already asked for its volume and reciprocal lengths) is given new lengths and angles: the
    # cell then is the new one in every respect
    ex = Explorer()
    lengths, angles, assume = _sym_params(ex, degrees=False)
    ex.base = assume

    def reset():
        uc = UC.from_lengths_and_angles([5.1, 7.2, 9.3], [1.2, 1.7, 1.4])
        uc.volume()
        uc.a_star, uc.alpha_star, uc.reciprocal_lattice
        uc.set_lengths_and_angles(list(lengths), list(angles))
        return uc
    paths = ex.run(reset)
    ctx.add_paths(ex)
    handle("reset_lengths_angles", paths, ex, lengths, [SymAngle(x.c, x.s, "rad") for x in angles], "reset")

    # the symbolic runs hand over lists; arrays as arguments (which a constructor could modify or alias) on the real class
    gbad = []
    for a_, b_, c_, ca_, cb_, cg_ in ((5.1, 7.2, 9.3, 0.36, -0.13, 0.17), (4.0, 4.0, 11.5, 0.0, 0.0, -0.5), (6.2, 6.2, 6.2, 0.3, 0.3, 0.3)):
        d_ = {"a": a_, "b": b_, "c": c_, "ca": ca_, "cb": cb_, "cg": cg_, "how": "arrays"}
        r_, det_ = replay_lengths_angles(d_)
        if r_:
            gbad.append((d_, det_))
    ctx.record("from_lengths_and_angles with float64 arrays of lengths and angles (degrees and radians): arguments untouched, a second cell from the same arrays is the same cell (ground instances, real class)",
               "holds" if not gbad else "counterexample", nontrivial=True, method="ground instances")
    if gbad:
        ctx.violation("la:arrays", "cell parameters given as arrays: %s" % gbad[0][1][0], gbad[0][0], replay_lengths_angles)
    part_vectors(ctx, UC)

    # -- route 1 -> route 2: cell from parameters, rebuilt from its vectors, has the same parameters
    ex = Explorer()
    lengths, angles, assume = _sym_params(ex)
    ex.base = assume

    def both():
        u1 = UC.from_lengths_and_angles(list(lengths), list(angles))
        u2 = UC(np.array(u1.direct, dtype=object))
        return u1, u2
    paths = ex.run(both)
    ctx.add_paths(ex)
    for p in paths:
        if p.exc is not None:
            ctx.harness_error("two-route run raised %r" % (p.exc,))
            continue
        u1, u2 = p.value
        for k in range(3):
            r = ctx.query("two-routes:length[%d]" % k, p.pc, (u2.lengths[k] == lengths[k]).t, ex=ex)
            r2 = ctx.query("two-routes:cos-angle[%d]" % k, p.pc, (u2.angles[k].c == angles[k].c).t, ex=ex)
            for rr in (r, r2):
                if rr.verdict == "cex":
                    d = _real_params_from_model(rr.model)
                    d["how"] = "vectors"
                    ctx.violation("la:two-routes", "cell rebuilt from its own vectors reports different parameters", d, replay_lengths_angles)
        for i in range(3):
            for j in range(3):
                r = ctx.query("two-routes:inverse[%d,%d]" % (i, j), p.pc, (u2.inverse[i, j] == u1.inverse[i, j]).t, ex=ex)
                if r.verdict == "cex":
                    d = _real_params_from_model(r.model)
                    d["how"] = "vectors"
                    ctx.violation("la:two-routes", "inverse matrices of the two routes differ", d, replay_lengths_angles)

    # -- named constructors = general constructor at the special angles
    half_pi = math.pi / 2
    named = {
        "cubic": dict(args=lambda L, A, conv: (L[0],), lens=lambda L: (L[0], L[0], L[0]), cos=(0, 0, 0)),
        "orthorhombic": dict(args=lambda L, A, conv: tuple(L), lens=lambda L: tuple(L), cos=(0, 0, 0)),
        "tetragonal": dict(args=lambda L, A, conv: (L[0], L[2]), lens=lambda L: (L[0], L[0], L[2]), cos=(0, 0, 0)),
        "hexagonal": dict(args=lambda L, A, conv: (L[0], L[2]), lens=lambda L: (L[0], L[0], L[2]), cos=(0, 0, Fraction_half_neg())),
        "monoclinic": dict(args=lambda L, A, conv: (*L, conv(A[1])), lens=lambda L: tuple(L), cos=(0, "cb", 0)),
        "rhombohedral": dict(args=lambda L, A, conv: (L[0], conv(A[0])), lens=lambda L: (L[0], L[0], L[0]), cos=("ca", "ca", "ca")),
        "triclinic": dict(args=lambda L, A, conv: (*L, *[conv(x) for x in A]), lens=lambda L: tuple(L), cos=("ca", "cb", "cg")),
    }
    for name, spec in named.items():
        for deg in ((False, True) if name in ("monoclinic", "tetragonal", "hexagonal", "rhombohedral", "triclinic") else (False,)):
            ex = Explorer()
            lengths, angles, assume = _sym_params(ex, degrees=deg)
            cosmap = {"ca": angles[0].c, "cb": angles[1].c, "cg": angles[2].c}
            cos = [cosmap[c] if isinstance(c, str) else Sym._lift(c) for c in spec["cos"]]
            # validity of the *named* parameter set
            if name == "rhombohedral":
                g = 1 - 3 * cos[0] * cos[0] + 2 * cos[0] * cos[0] * cos[0]
                assume = [lengths[0].t > 0, angles[0].c.t ** 2 + angles[0].s.t ** 2 == 1, angles[0].s.t > 0, g.t > 0]
            ex.base = assume
            kw = {"unit": "degrees"} if deg else {}
            if name in ("cubic", "orthorhombic"):
                kw = {}
            args = spec["args"](list(lengths), list(angles), lambda x: x)
            tag = "named:%s%s" % (name, ":deg" if deg else "")
            paths = ex.run(lambda: getattr(UC, name)(*args, **kw))
            ctx.add_paths(ex)
            L = spec["lens"](lengths)
            for p in paths:
                if p.exc is not None:
                    r, mdl = ctx.witness("%s:exception-path-feasible" % tag, p.pc, ex=ex, expect="sat")
                    if r == "sat":
                        d = _model_named(mdl)
                        d.update(how="named:" + name, deg=deg)
                        ctx.violation("la:" + tag, "raises %s: %s" % (type(p.exc).__name__, p.exc), d, _raises_or_bad)
                    continue
                uc = p.value
                D, I = np.asarray(uc.direct, dtype=object), np.asarray(uc.inverse, dtype=object)
                G = np.dot(D, D.T)
                want = [[L[0] * L[0], L[0] * L[1] * cos[2], L[0] * L[2] * cos[1]],
                        [None, L[1] * L[1], L[1] * L[2] * cos[0]], [None, None, L[2] * L[2]]]
                P = np.dot(D, I)
                res = []
                for i in range(3):
                    for j in range(3):
                        res.append(ctx.query("%s:direct.inverse[%d,%d]" % (tag, i, j), p.pc, (P[i, j] == (1 if i == j else 0)).t, ex=ex))
                        if j >= i:
                            res.append(ctx.query("%s:gram[%d,%d]" % (tag, i, j), p.pc, (G[i, j] == want[i][j]).t, ex=ex))
                for r in res:
                    if r.verdict == "cex":
                        d = _model_named(r.model)
                        d.update(how="named:" + name, deg=deg)
                        ctx.violation("la:" + tag, "named constructor geometry differs from the general formula", d, _replay_named)
    ctx.note("total %.1fs" % (time.time() - t0))


def Fraction_half_neg():
    from fractions import Fraction
    return Fraction(-1, 2)


def _model_named(mdl):
    d = {}
    for n in ("a", "b", "c", "ca", "cb", "cg"):
        try:
            d[n] = float(model_value(mdl, z3.Real(n)))
        except Exception:
            d[n] = 1.0
    return d


def _replay_named(data):
    name = data["how"].split(":")[1]
    d = dict(data)
    if name in ("cubic", "tetragonal", "orthorhombic"):
        d["ca"] = d["cb"] = d["cg"] = 0.0
    if name in ("cubic", "tetragonal", "hexagonal"):
        d["b"] = d["a"]
    if name in ("cubic", "rhombohedral"):
        d["b"] = d["c"] = d["a"]
    if name == "hexagonal":
        d["ca"] = d["cb"] = 0.0
        d["cg"] = -0.5
    if name == "monoclinic":
        d["ca"] = d["cg"] = 0.0
    if name == "rhombohedral":
        d["cb"] = d["cg"] = d["ca"]
    return replay_lengths_angles(d)


def _raises_or_bad(data):
    try:
        if data.get("how", "").startswith("named:"):
            return _replay_named(data)
        return replay_lengths_angles(data)
    except Exception as e:
        return True, "raises %s: %s" % (type(e).__name__, e)


REPLAY["la"] = _raises_or_bad
