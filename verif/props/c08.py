"""C08  Shape invariants computed from harmonic coefficients are rotation invariant.

N invariants and the power spectrum: the real Python functions run on symbolic complex
coefficients; the traced radicand is compared with sum_m |c_lm|^2 (polynomial identity, all c).
P invariants: the translated _invariants.pyx kernel runs on symbolic coefficients with exact
algebraic Clebsch-Gordan values; z3 decides P(D c) = P(c) for the generators R_z(atan 4/3)
(an irrational multiple of pi: dense in the z-rotations) and R_y(pi/2) (exact Wigner d from
sympy), which generate SO(3)."""
import math
import time
from fractions import Fraction

import numpy as np
import z3

from .. import symx, pyx2py, pyxrt
from ..symx import Sym, Explorer, load_shimmed, model_value

PYX = "/repo/src/chmpy/shape/_invariants.pyx"


from ..symc import SymC, Poly, coeffs  # noqa: E402


# ------------------------------------------------------------------------------- replays
def _wigner_d(l, mp, m, beta):
    """Wigner small d^l_{m'm}(beta), standard (Varshalovich/Sakurai) convention, by the explicit sum"""
    f = math.factorial
    pre = math.sqrt(f(l + mp) * f(l - mp) * f(l + m) * f(l - m))
    tot = 0.0
    for k in range(max(0, m - mp), min(l + m, l - mp) + 1):
        tot += (-1) ** (k - m + mp) * math.cos(beta / 2) ** (2 * l - 2 * k + m - mp) * math.sin(beta / 2) ** (2 * k - m + mp) / (
            f(l + m - k) * f(k) * f(mp - m + k) * f(l - mp - k))
    return pre * tot


def _wigner_rotate(c, lmax, alpha, beta, gamma):
    """rotate full complex coefficients with the Wigner D matrices"""
    out = np.zeros_like(c)
    for l in range(lmax + 1):
        d = np.array([[_wigner_d(l, m, mp, beta) for mp in range(-l, l + 1)] for m in range(-l, l + 1)])
        ms = np.arange(-l, l + 1)
        D = np.exp(-1j * ms[:, None] * alpha) * d * np.exp(-1j * ms[None, :] * gamma)
        out[l * l:(l + 1) ** 2] = D @ c[l * l:(l + 1) ** 2]
    return out


def replay_invariants(data):
    from chmpy.shape import shape_descriptors as sd
    from chmpy.shape.shape_descriptors import make_N_invariants, make_invariants
    if data.get("source_semantics"):
        # the .pyx source is what is judged (the compiled module cannot be rebuilt here): run the translated kernel
        mc = pyx2py.load(PYX, "chmpy.shape._invariants__pyc", dict(pyxrt.RUNTIME), package="chmpy.shape")
        orig = sd.p_invariants_c
        sd.p_invariants_c = mc.p_invariants_c
        try:
            d2 = dict(data)
            d2.pop("source_semantics")
            return replay_invariants(d2)
        finally:
            sd.p_invariants_c = orig
    lmax = max(2, int(data["lmax"]))
    rng = np.random.default_rng(int(data.get("seed", 0)))
    n = (lmax + 1) ** 2
    c = rng.normal(size=n) + 1j * rng.normal(size=n) if "c" not in data else np.array(data["c"][0]) + 1j * np.array(data["c"][1])
    bad = []
    if data.get("cg_bad"):
        from sympy.physics.quantum.cg import CG
        mc = pyx2py.load(PYX, "chmpy.shape._invariants__pyc", dict(pyxrt.RUNTIME), package="chmpy.shape")
        for (l1, m1, l2, m2, l) in ((1, 0, 1, 0, 2), (2, 1, 1, -1, 2), (1, 1, 1, -1, 0), (2, 2, 2, -2, 4), (3, 1, 2, 0, 3)):
            if abs(float(CG(l1, m1, l2, m2, l, m1 + m2).doit()) - mc.clebsch_gordan(l1, m1, l2, m2, l, m1 + m2)) > 1e-12:
                bad.append("clebsch(%s) differs from the exact Clebsch-Gordan coefficient" % ((l1, m1, l2, m2, l),))
                break
    N = make_N_invariants(c)
    want = np.array([math.sqrt((abs(c[l * l:(l + 1) ** 2]) ** 2).sum()) for l in range(lmax + 1)])
    if len(N) != lmax + 1 or not np.allclose(N, want, rtol=1e-10):
        bad.append("N invariants are not the per-degree norms: %s vs %s" % (np.round(N, 6).tolist(), np.round(want, 6).tolist()))
    # each N_l depends on the coefficients of degree l only: changing c_00 (the mean radius, typically orders of magnitude larger
    # than the rest) must leave every other N_l as it is
    for big in (2.0e5, 3.0e7, -1.0e6):
        cs = 1e-2 * c
        cb = cs.copy()
        cb[0] = big
        Ns, Nb = np.asarray(make_N_invariants(cs), float), np.asarray(make_N_invariants(cb), float)
        if Ns.shape != Nb.shape or not np.allclose(Ns[1:], Nb[1:], rtol=1e-12, atol=0):
            bad.append("N invariants of degree >= 1 change (by up to %.3g relative) when only c_00 is changed to %g" % (float(np.max(np.abs(Nb[1:] - Ns[1:]) / Ns[1:])) if Ns.shape == Nb.shape else -1, big))
            break
    c2 = _wigner_rotate(c, lmax, 0.3, 1.1, -0.7)
    for kinds in ("N", "P"):
        a, b = make_invariants(lmax, c, kinds=kinds), make_invariants(lmax, c2, kinds=kinds)
        if a.shape != b.shape or (a.size and not np.allclose(a, b, rtol=0, atol=1e-8 * max(1, np.abs(a).max()))):
            bad.append("%s invariants change under a rotation (max diff %.3g)" % (kinds, np.abs(a - b).max() if a.shape == b.shape else -1))
    return bool(bad), bad


def replay_power(data):
    from chmpy.shape.sht import SHT
    lmax = int(data["lmax"])
    sht = SHT(lmax)
    rng = np.random.default_rng(1)
    n = (lmax + 1) ** 2
    c = rng.normal(size=n) + 1j * rng.normal(size=n)
    ps = sht.power_spectrum(c)
    want = np.array([(abs(c[l * l:(l + 1) ** 2]) ** 2).sum() / (2 * l + 1) for l in range(lmax + 1)])
    bad = []
    if not np.allclose(ps, want, rtol=1e-10):
        bad.append("power spectrum (complex layout) is not sum_m |c_lm|^2/(2l+1)")
    nr = (lmax + 1) * (lmax + 2) // 2
    cr = rng.normal(size=nr) + 1j * rng.normal(size=nr)
    from chmpy.shape._sht import expand_coeffs_to_full
    full = expand_coeffs_to_full(lmax, cr)
    pr = np.asarray(sht.power_spectrum(cr), float)
    wantr = np.array([(abs(full[l * l:(l + 1) ** 2]) ** 2).sum() / (2 * l + 1) for l in range(lmax + 1)])
    if pr.shape != wantr.shape:
        bad.append("power spectrum of %d packed real-layout coefficients (l_max=%d) has %d values, expected %d" % (nr, lmax, pr.size, lmax + 1))
    elif not np.allclose(pr, wantr, rtol=1e-10):
        bad.append("power spectrum of the real layout differs from that of the expanded coefficients")
    return bool(bad), bad


REPLAY = {"inv": replay_invariants, "pow": replay_power}


def _replay_sht(data):
    from . import c07
    return c07.replay_sht(data)


REPLAY["sht"] = _replay_sht


def _radicand(ex, w):
    if isinstance(w, Sym) and z3.is_const(w.t) and w.t.decl().name() in ex.defs:
        return ex.defs[w.t.decl().name()][1].arg(1)
    return None


# ------------------------------------------------------------------------------- run
def run(ctx):
    from chmpy.shape import shape_descriptors as realsd
    from chmpy.shape.sht import SHT
    ctx.encode(realsd.make_N_invariants, realsd.make_invariants, SHT.power_spectrum)
    ctx.encode_file(PYX, "_invariants.pyx (clebsch, coefficient_c, invariant_P_c, p_invariants_c via pyx2py)")
    thorough = ctx.tier == "thorough"
    LN = 6
    LP = 3 if thorough else 2
    ctx.bound("N invariants and power spectrum: l_max <= %d, all complex coefficient vectors; P invariants: l_max <= %d, all coefficient vectors, "
              "rotations generated by R_z(atan 4/3) and R_y(pi/2)" % (LN, LP))
    ctx.assume("exact real/complex arithmetic; Clebsch-Gordan values taken as the exact algebraic numbers the kernel's formula denotes (sqrt exact)")
    ctx.stub("invariants / descriptors of a sampled function rest on the transform grid being exact for the degree (ntheta >= l_max + 1): C07's grid rule, run here as a dependency section")
    ctx.out_of_scope("P invariants beyond l_max = %d; floating-point cancellation in the factorial formula for large l" % LP)
    ctx.parallel_sections([("N", lambda c: part_N(c, LN)), ("power", lambda c: part_power(c, LN)), ("P", lambda c: part_P(c, LP)), ("wrapper", part_wrapper), ("N-float", part_N_ground)] + __import__('verif.props.c07', fromlist=['x']).dependency_sections())


def part_wrapper(ctx):
    """make_invariants (the function users call): the coefficients reach the P kernel as given and its values are returned as they
    are, after the N invariants -- with symbolic coefficients and the kernel as a recording stub.  A wrapper that rescales
    before and after the kernel would be flagged here, so a failure is decided by the numeric rotation test on the real code."""
    from ..symc import SymC
    msd = load_shimmed("chmpy.shape.shape_descriptors")
    seen = {}

    def kernel_stub(c):
        seen["c"] = c
        seen["out"] = np.array([Sym(z3.Real("P%d" % i)) for i in range(4)], dtype=object)
        return seen["out"]
    msd.p_invariants_c = kernel_stub
    lmax = 2
    n = (lmax + 1) ** 2
    c = np.array([SymC(Sym(z3.Real("wr%d" % i)), Sym(z3.Real("wi%d" % i))) for i in range(n)], dtype=object)
    ex = Explorer()
    paths = ex.run(lambda: msd.make_invariants(lmax, c, kinds="NP"))
    ctx.add_paths(ex)
    why = None
    if len(paths) != 1 or paths[0].exc is not None:
        why = "make_invariants raises / forks on symbolic coefficients: %r" % (paths[0].exc if paths else None,)
    else:
        out = list(paths[0].value)
        given = seen.get("c")
        if given is None or len(given) != n or any(a is not b for a, b in zip(list(given), list(c))):
            why = "the coefficients handed to the P kernel are not the coefficients given"
        elif len(out) != lmax + 1 + 4 or any(a is not b for a, b in zip(out[lmax + 1:], list(seen["out"]))):
            why = "the P invariants returned are not the kernel's values (N first, then P)"
    ctx.record("wrapper: make_invariants hands the (symbolic) coefficients to the P kernel unchanged and returns [N..., P...] unmodified", "holds" if why is None else "counterexample", nontrivial=True)
    if why:
        ctx.violation("inv:wrapper", "make_invariants: %s" % why, {"lmax": 3, "seed": 4}, replay_invariants, soft=True)


def part_N(ctx, LN):
    m = load_shimmed("chmpy.shape.shape_descriptors")
    for lmax in (1, 2, LN):
        n = (lmax + 1) ** 2
        c = coeffs(n)
        ex = Explorer()
        paths = ex.run(lambda: m.make_N_invariants(c))
        ctx.add_paths(ex)
        for p in paths:
            if p.exc is not None:
                ctx.harness_error("make_N_invariants raised symbolically: %r" % (p.exc,))
                return
            N = p.value
            ok_len = len(N) == lmax + 1
            ctx.record("N[l_max=%d]: number of invariants = l_max+1" % lmax, "holds" if ok_len else "counterexample", nontrivial=True)
            bad = not ok_len
            for l in range(min(len(N), lmax + 1)):
                rad = _radicand(ex, N[l])
                want = sum(c[k].re * c[k].re + c[k].im * c[k].im for k in range(l * l, (l + 1) ** 2))
                if rad is None:
                    r = ctx.query("N[l_max=%d] degree %d: N_l^2 = sum_m |c_lm|^2" % (lmax, l), p.pc, ((N[l] * N[l] == want) & (N[l] >= 0)).t, ex=ex, vacuity=False)
                else:
                    r = ctx.query("N[l_max=%d] degree %d: radicand = sum_{m=-l..l} |c_lm|^2 [identity: depends on degree l only]" % (lmax, l), [], rad == want.t, vacuity=False)
                bad = bad or r.verdict == "cex"
            if bad:
                ctx.violation("inv:N", "N invariants are not the per-degree norms of the coefficients (l_max=%d)" % lmax, {"lmax": lmax}, replay_invariants)
                return


def part_N_ground(ctx):
    """floating-point side of 'N_l depends on degree l only' (the symbolic lemma is exact arithmetic): c_00 orders of magnitude
    above the other coefficients, real function"""
    for lmax in (3, 8, 12):
        r, det = replay_invariants({"lmax": lmax, "seed": lmax})
        ctx.record("N[l_max=%d]: per-degree norms, rotation and independence of c_00 = 2e5, 3e7, -1e6 in floating point (real code)" % lmax, "counterexample" if r else "holds", nontrivial=True, method="ground instances")
        if r:
            ctx.violation("inv:N-float", det[0], {"lmax": lmax, "seed": lmax}, replay_invariants)
            return


def part_power(ctx, LN):
    ms = load_shimmed("chmpy.shape.sht")
    from chmpy.shape._sht import expand_coeffs_to_full
    for lmax in (1, 2, LN, 7):      # 7: the first degree whose packed real layout has a square number of coefficients (36 = 6^2)
        sht = ms.SHT(lmax)
        n = (lmax + 1) ** 2
        c = coeffs(n)
        ex = Explorer()
        paths = ex.run(lambda: sht.power_spectrum(c)) if lmax != 7 else []     # l_max = 7: packed real layout only (below)
        ctx.add_paths(ex)
        bad = False
        for p in paths:
            if p.exc is not None:
                ctx.harness_error("power_spectrum raised symbolically: %r" % (p.exc,))
                return
            ps = p.value
            if len(ps) != lmax + 1:
                ctx.record("power[l_max=%d] (complex layout): one value per degree" % lmax, "counterexample", nontrivial=True)
                bad = True
                continue
            with ex.post(p.pc):
                for l in range(lmax + 1):
                    want = sum(c[k].re * c[k].re + c[k].im * c[k].im for k in range(l * l, (l + 1) ** 2))
                    r = ctx.query("power[l_max=%d] degree %d (complex layout): (2l+1) S_l = sum_m |c_lm|^2" % (lmax, l), ex.pc, (ps[l] * (2 * l + 1) == want).t, ex=ex, vacuity=False)
                    bad = bad or r.verdict == "cex"
        # real layout: m-major packed coefficients, S_l (2l+1) = |c_l0|^2 + 2 sum_{m>0} |c_lm|^2
        nr = (lmax + 1) * (lmax + 2) // 2
        cr = coeffs(nr, "d")
        ex = Explorer()
        paths = ex.run(lambda: sht.power_spectrum(cr))
        ctx.add_paths(ex)
        for p in paths:
            if p.exc is not None:
                ctx.harness_error("power_spectrum (real layout) raised symbolically: %r" % (p.exc,))
                return
            ps = p.value
            if len(ps) != lmax + 1:
                ctx.record("power[l_max=%d] (real layout, %d coefficients): one value per degree" % (lmax, nr), "counterexample", nontrivial=True)
                bad = True
                continue
            idx = {}
            k = 0
            for mm in range(lmax + 1):
                for l in range(mm, lmax + 1):
                    idx[(l, mm)] = k
                    k += 1
            with ex.post(p.pc):
                for l in range(lmax + 1):
                    want = sum((1 if mm == 0 else 2) * (cr[idx[(l, mm)]].re ** 2 + cr[idx[(l, mm)]].im ** 2) for mm in range(l + 1))
                    r = ctx.query("power[l_max=%d] degree %d (real layout): (2l+1) S_l = |c_l0|^2 + 2 sum_{m>0}|c_lm|^2" % (lmax, l), ex.pc,
                                  (ps[l] * (2 * l + 1) == want).t, ex=ex, vacuity=False)
                    bad = bad or r.verdict == "cex"
        if bad:
            ctx.violation("pow:spectrum", "power spectrum is not the per-degree mean square (l_max=%d)" % lmax, {"lmax": lmax}, replay_power)
            return


def _sympy_to_z3(e):
    import sympy
    e = sympy.nsimplify(e)
    if e.is_Rational:
        return z3.RealVal(Fraction(int(e.p), int(e.q)))
    if e.is_Add:
        return sum((_sympy_to_z3(a) for a in e.args[1:]), _sympy_to_z3(e.args[0]))
    if e.is_Mul:
        r = _sympy_to_z3(e.args[0])
        for a in e.args[1:]:
            r = r * _sympy_to_z3(a)
        return r
    if e.is_Pow and e.exp == sympy.Rational(1, 2):
        return z3.Sqrt(_sympy_to_z3(e.base))
    if e.is_Pow and e.exp == sympy.Rational(-1, 2):
        return 1 / z3.Sqrt(_sympy_to_z3(e.base))
    if e.is_Pow and e.exp.is_Integer:
        b = _sympy_to_z3(e.base)
        r = z3.RealVal(1)
        for _ in range(abs(int(e.exp))):
            r = r * b
        return r if e.exp > 0 else 1 / r
    raise symx.SymUnsupported("sympy term %r" % (e,))


def part_P(ctx, LP):
    import sympy
    from sympy.physics.quantum.spin import Rotation
    from sympy.physics.quantum.cg import CG
    import chmpy.shape._invariants as so
    rt = dict(pyxrt.RUNTIME)

    def exact_sqrt(x):
        if isinstance(x, Sym):
            t = z3.simplify(x.real())
            return Sym(z3.Sqrt(t))
        return Sym(z3.Sqrt(z3.RealVal(symx._nice_fraction(float(x)))))
    rt["sqrt"] = exact_sqrt
    mi = pyx2py.load(PYX, "chmpy.shape._invariants__py", rt, package="chmpy.shape")
    mc = pyx2py.load(PYX, "chmpy.shape._invariants__pyc", dict(pyxrt.RUNTIME), package="chmpy.shape")
    # translator validation + Clebsch-Gordan values against exact ones (ground)
    rng = np.random.default_rng(ctx.seed)
    cc = rng.normal(size=25) + 1j * rng.normal(size=25)
    ctx.compiled_check("pyx2py(_invariants.pyx) == compiled module on random coefficients (l_max=4)", np.allclose(so.p_invariants_c(cc), mc.p_invariants_c(cc), rtol=0, atol=1e-12))
    worst = 0.0
    ncg = 0
    for l1 in range(0, 4):
        for l2 in range(0, 4):
            for l in range(abs(l1 - l2), min(l1 + l2, 4) + 1):
                for m1 in range(-l1, l1 + 1):
                    for m2 in range(-l2, l2 + 1):
                        if abs(m1 + m2) > l:
                            continue
                        ex_ = float(CG(l1, m1, l2, m2, l, m1 + m2).doit())
                        worst = max(worst, abs(ex_ - mc.clebsch_gordan(l1, m1, l2, m2, l, m1 + m2)))
                        ncg += 1
    # informational only: the property asks for rotation invariance, which any common rescaling of the coefficients preserves
    ctx.concrete_note("clebsch (source): %d coefficients with l1,l2 <= 3, l <= 4 vs exact Clebsch-Gordan values, max |diff| %.2g" % (ncg, worst), worst < 1e-12)
    cg_bad = False

    for lmax in range(1, LP + 1):
        n = (lmax + 1) ** 2
        c = coeffs(n, poly=True)
        # index identity coefficient_c(l,m) = l(l+1)+m  (all l, m: NIA)
        l_, m_ = Sym(z3.Int("l")), Sym(z3.Int("m"))
        ex = Explorer()
        r = ex.run(lambda: mi.coefficient_c(l_, m_))[0]
        q = ctx.query("coefficient_c(l,m) = l(l+1)+m for all integers l, m", [], (r.value == l_ * (l_ + 1) + m_).t, vacuity=False)
        # the list of (l, l1, l2) triples and the polynomials, from the kernel's own loop nest
        ex = Explorer(max_paths=50)
        calls = []
        orig = mi.invariant_P_c

        def traced(cf, l, l1, l2):
            v = orig(cf, l, l1, l2)
            calls.append(((l, l1, l2), v))
            return complex(0, 0)
        mi.invariant_P_c = traced

        def body():
            del calls[:]
            try:
                mi.p_invariants_c(c)
            except Exception:
                pass
            return list(calls)
        t0 = time.time()
        paths = ex.run(body)
        mi.invariant_P_c = orig
        ctx.add_paths(ex)
        if len(paths) != 1:
            ctx.harness_error("could not trace p_invariants_c for l_max=%d (%d paths)" % (lmax, len(paths)))
            continue
        if not paths[0].value:
            ctx.note("l_max=%d: the kernel's loop nest selects no P invariant" % lmax)
            continue
        polys = paths[0].value
        ctx.note("l_max=%d: %d P invariants traced in %.1fs: %s" % (lmax, len(polys), time.time() - t0, [k for k, _ in polys]))
        # generators
        gens = {}
        ph = SymC(Fraction(3, 5), Fraction(-4, 5))       # e^{-i phi}, cos phi = 3/5, sin phi = 4/5
        cz = np.empty(n, dtype=object)
        cy = np.empty(n, dtype=object)
        for l in range(lmax + 1):
            for m in range(-l, l + 1):
                k = l * (l + 1) + m
                cz[k] = (ph ** m if m >= 0 else (ph.conjugate() ** (-m))) * c[k]
                acc = SymC(0, 0)
                for mp in range(-l, l + 1):
                    d = Rotation.d(l, m, mp, sympy.pi / 2).doit()
                    if d != 0:
                        acc = acc + c[l * (l + 1) + mp] * Sym(_sympy_to_z3(d))
                cy[k] = acc
        gens["R_z(atan 4/3)"] = cz
        gens["R_y(pi/2)"] = cy
        tasks = []
        for gname, cg in gens.items():
            for (l, l1, l2), v in polys:
                v2 = orig(cg, l, l1, l2)
                if (l + l1 + l2) % 2 == 0:
                    diff, what = v2.re - v.re, "real part (even l+l1+l2)"
                else:
                    diff, what = v2.im - v.im, "imaginary part (odd l+l1+l2)"
                # the difference is an exactly expanded polynomial: every monomial's (closed, algebraic) coefficient must vanish
                goal = z3.And([cf == 0 for cf in diff.d.values()]) if diff.d else z3.BoolVal(True)
                tasks.append(dict(name="P[l_max=%d] (l,l1,l2)=%s %s invariant under %s: all %d monomial coefficients of P(Dc)-P(c) vanish [closed formula over algebraic numbers]"
                                  % (lmax, (l, l1, l2), what, gname, len(diff.d)),
                                  assumptions=[], goal=goal, vacuity=False, timeout=ctx.default_timeout, extract=lambda mdl: {}))
        res = ctx.query_many(tasks)
        if any(r.verdict == "cex" for r in res) or cg_bad or q.verdict == "cex":
            ctx.violation("inv:P", "P invariants (source of _invariants.pyx) are not rotation invariant / Clebsch-Gordan values wrong (l_max=%d)" % lmax,
                          {"lmax": max(lmax, 2), "source_semantics": True, "cg_bad": bool(cg_bad)}, replay_invariants)
            return
    # count/order of the invariant vector is a fixed function of l_max: N first (l_max+1 values) then the P list in loop order
    from chmpy.shape.shape_descriptors import make_invariants
    okc = True
    for lmax in range(1, 7):
        rr = np.random.default_rng(lmax)
        n = (lmax + 1) ** 2
        a = make_invariants(lmax, rr.normal(size=n) + 1j * rr.normal(size=n))
        b = make_invariants(lmax, rr.normal(size=n) + 1j * rr.normal(size=n))
        okc = okc and a.shape == b.shape and len(make_invariants(lmax, rr.normal(size=n) + 0j, kinds="N")) == lmax + 1
    ctx.record("number of invariants is a function of l_max only (l_max 1..6, ground)", "holds" if okc else "counterexample", nontrivial=True, method="ground instances")
