"""C11  Symmetry-operation forms are interchangeable; equality is modulo the lattice."""
import itertools
import math
import time
from fractions import Fraction

import numpy as np
import z3

from .. import symx, symfp
from ..symx import Sym, SymBool, Explorer, load_shimmed, model_value
from ..symfp import SymFP, F64, fpval

NCODES = 19683 * 1728


# -------------------------------------------------------------------------- replays
def replay_code(data):
    from chmpy.crystal.symmetry_operation import decode_symm_int, encode_symm_int
    c = int(data["code"])
    R, t = decode_symm_int(c)
    bad = []
    if not set(np.unique(R)).issubset({-1.0, 0.0, 1.0}):
        bad.append("rotation digits outside {-1,0,1}")
    if not np.allclose(t * 12, np.round(t * 12)) or t.min() < 0 or t.max() >= 1:
        bad.append("translation not k/12 in [0,1)")
    c2 = encode_symm_int(R, t)
    if int(c2) != c:
        bad.append("encode(decode(%d)) = %d" % (c, c2))
    return bool(bad), bad


def replay_rt(data):
    from chmpy.crystal.symmetry_operation import decode_symm_int, encode_symm_int
    R = np.array(data["R"], float)
    t = np.array(data["k"], float) / 12
    c = encode_symm_int(R, t)
    R2, t2 = decode_symm_int(int(c))
    bad = []
    if not np.array_equal(R2, R):
        bad.append("rotation changed by encode/decode")
    if not np.allclose(t2, t, rtol=0, atol=1e-15):
        bad.append("translation changed by encode/decode")
    if not (0 <= int(c) < NCODES):
        bad.append("code %d outside [0, 3^9*12^3)" % c)
    return bool(bad), bad


def replay_fp(data):
    """operation with translation x (a double within 1e-12 of k/12+n on one axis) must equal,
    hash and print like the operation with translation k/12."""
    from chmpy.crystal.symmetry_operation import SymmetryOperation
    R = np.array(data.get("R", np.eye(3).tolist()), float)
    t = np.array(data["t"], float)
    tref = np.array(data["tref"], float)
    a, b = SymmetryOperation(R, t), SymmetryOperation(R, tref)
    bad = []
    if not (0 <= int(a.integer_code) < NCODES):
        bad.append("integer code %d outside the code space" % a.integer_code)
    if a.integer_code != b.integer_code or not (a == b):
        bad.append("codes differ: %d vs %d" % (a.integer_code, b.integer_code))
    if hash(a) != hash(b):
        bad.append("hashes differ")
    if str(a) != str(b):
        bad.append("print differently: %r vs %r" % (str(a), str(b)))
    return bool(bad), bad


def replay_apply(data):
    from chmpy.crystal.symmetry_operation import SymmetryOperation
    R, t, x = np.array(data["R"], float), np.array(data["t"], float), np.array(data["x"], float).reshape(1, 3)
    bad = []
    # the same operation given with its rotation part as a float64 array and (when integral, as the tabulated rotations are)
    # as an integer array
    variants = [("float64 array", R)]
    if np.allclose(R, np.round(R)):
        variants += [("integer array", np.round(R).astype(int)), ("int8 array", np.round(R).astype(np.int8))]
    for tag, Rv in variants:
        op = SymmetryOperation(Rv, t)
        a = op.apply(x)
        x4 = np.hstack([x, [[1.0]]])
        b = op.apply(x4)[:, :3].copy()
        b2 = op.apply(x4)[:, :3]
        want = x @ R.T + (t % 1)
        if not np.allclose(b2, want, rtol=0, atol=1e-9):
            bad.append("rotation as %s: apply(N,4) on the same array a second time != R x + t" % tag)
        if not np.allclose(a, want, rtol=0, atol=1e-9):
            bad.append("rotation as %s: apply(N,3) != R x + t" % tag)
        if not np.allclose(b, want, rtol=0, atol=1e-9):
            bad.append("rotation as %s: apply(N,4) != R x + t" % tag)
        if not np.allclose(op(x), a):
            bad.append("rotation as %s: __call__ != apply" % tag)
        S = np.asarray(op.seitz_matrix, float)
        if S.shape != (4, 4) or not np.allclose(S[:3, :3], R) or not np.allclose(S[:3, 3], t % 1) or not np.allclose(S[3], [0, 0, 0, 1]):
            bad.append("rotation as %s: seitz_matrix is not [[R, t], [0, 1]]" % tag)
    return bool(bad), bad[:3]


def replay_cart(data):
    from chmpy.crystal import Crystal, UnitCell, SpaceGroup, AsymmetricUnit
    from chmpy.core.element import Element
    uc = UnitCell.from_lengths_and_angles(data["lengths"], data["angles"])
    sg = SpaceGroup(data["sg"], data.get("choice", ""))
    c = Crystal(uc, sg, AsymmetricUnit([Element["C"]], np.array([[0.1, 0.2, 0.3]])))
    f = np.array(data["f"], float).reshape(1, 3)
    bad = []
    for op, (Rc, tc) in zip(c.symmetry_operations, c.cartesian_symmetry_operations()):
        want = uc.to_cartesian(op.apply(f))
        got = np.dot(uc.to_cartesian(f), Rc) + tc
        if not np.allclose(want, got, rtol=0, atol=1e-8):
            bad.append("cartesian form of %s moves the point elsewhere" % op)
            break
    return bool(bad), bad


def replay_str(data):
    from chmpy.crystal.symmetry_operation import SymmetryOperation
    s = data["s"]
    want = int(data["code"])
    try:
        got = int(SymmetryOperation.from_string_code(s).integer_code)
    except Exception as e:
        return True, "from_string_code(%r) raises %s: %s" % (s, type(e).__name__, e)
    return got != want, "from_string_code(%r).integer_code = %d, expected %d" % (s, got, want)


def replay_str_rt(data):
    from chmpy.crystal.symmetry_operation import SymmetryOperation
    c = int(data["code"])
    op = SymmetryOperation.from_integer_code(c)
    s = str(op)
    op2 = SymmetryOperation.from_string_code(s)
    ok = int(op2.integer_code) == c and np.array_equal(op2.rotation, op.rotation) and np.allclose(op2.translation, op.translation)
    return not ok, "code %d prints %r which reads back as %d" % (c, s, op2.integer_code)


REPLAY = {"code": replay_code, "rt": replay_rt, "fp": replay_fp, "eq": replay_fp, "apply": replay_apply, "cart": replay_cart,
          "str": replay_str, "strrt": replay_str_rt}


# -------------------------------------------------------------------------- spelling grammar
def spellings(R_row, k, max_variants=None):
    """Equivalent CIF/SHELX spellings of one row  sum_j R_j * xyz_j + k/12."""
    syms = "xyz"
    terms = [(int(R_row[j]), syms[j]) for j in range(3) if R_row[j] != 0]
    fr = Fraction(k, 12)
    consts = []
    if k:
        consts += [("+", str(fr)), ("+", repr(round(float(fr), 7))), ("-", str(1 - fr))]
        if fr.denominator in (2, 4):
            consts.append(("+", str(float(fr))))
    else:
        consts.append(None)
    out = []
    for const in consts:
        items = [("+" if c > 0 else "-", s) for c, s in terms]
        if const is not None:
            items.append(const)
        for perm in itertools.permutations(items):
            for lead_plus in (False, True):
                for sep in ("", " "):
                    for upper in (False, True):
                        txt = ""
                        for n, (sg, body) in enumerate(perm):
                            if n == 0:
                                txt += ("-" if sg == "-" else ("+" if lead_plus else "")) + body
                            else:
                                txt += sep + sg + sep + body
                        out.append(txt.upper() if upper else txt)
    return sorted(set(out))


# -------------------------------------------------------------------------- run
def run(ctx):
    import chmpy.crystal.symmetry_operation as real
    from chmpy.crystal.crystal import Crystal
    m = load_shimmed("chmpy.crystal.symmetry_operation")
    ctx.encode(real.decode_symm_int, real.encode_symm_int, real.encode_symm_str, real.decode_symm_str,
               real.SymmetryOperation.__init__, real.SymmetryOperation.__eq__, real.SymmetryOperation.__hash__,
               real.SymmetryOperation.__str__, real.SymmetryOperation.apply, real.SymmetryOperation.seitz_matrix.fget,
               real.SymmetryOperation.integer_code.fget, Crystal.cartesian_symmetry_operations)
    ctx.assume("reals stand in for doubles except in the FP64 lemmas of part (b), which use z3's IEEE-754 binary64 theory")
    thorough = ctx.tier == "thorough"

    # fidelity: shimmed module == real on the repo's own test inputs
    ok = True
    for c in (16484, 1433663, 3198, 0, NCODES - 1, 20000000):
        R1, t1 = real.decode_symm_int(c)
        R2, t2 = m.decode_symm_int(c)
        ok = ok and np.array_equal(R1, np.asarray(R2, float)) and np.array_equal(t1, np.asarray(t2, float))
        ok = ok and int(m.encode_symm_int(R1, t1)) == int(real.encode_symm_int(R1, t1))
    ctx.fidelity_check("shimmed codec == real codec on concrete codes", ok)

    part_a(ctx, m)
    part_c(ctx, m)
    part_b(ctx, m, real, thorough)
    part_d(ctx, real, thorough)


def part_a(ctx, m):
    ctx.bound("(a) the whole code space 0 <= c < 3^9*12^3 (symbolic integer), all R in {-1,0,1}^9, all k in [0,12)^3")
    c = Sym(z3.Int("c"))
    ex = Explorer(assumptions=[c.t >= 0, c.t < NCODES])

    def f():
        R, t = m.decode_symm_int(c)
        return R, t, m.encode_symm_int(R, t)
    paths = ex.run(f)
    ctx.add_paths(ex)
    tasks = []
    ext = lambda mdl: {"code": mdl.eval(c.t, model_completion=True).as_long()}
    for p in paths:
        if p.exc is not None:
            ctx.harness_error("codec raised symbolically: %r" % (p.exc,))
            return
        R, t, c2 = p.value
        tasks.append(dict(name="codec: encode(decode(c)) = c for all c", assumptions=p.pc, goal=(c2 == c).t, extract=ext, logic="QF_LIA"))
        dig = z3.And([z3.Or([(R[i, j] == v).t for v in (-1, 0, 1)]) for i in range(3) for j in range(3)])
        tasks.append(dict(name="codec: rotation entries in {-1,0,1} for all c", assumptions=p.pc, goal=dig, extract=ext))
        tr = z3.And([z3.Or([(t[i] * 12 == k).t for k in range(12)]) for i in range(3)])
        tasks.append(dict(name="codec: translation = k/12, 0<=k<12 for all c", assumptions=p.pc, goal=tr, extract=ext))
    # decode(encode(R,k/12)) = (R, k/12)
    Rs = np.array([[Sym(z3.Int("r%d%d" % (i, j))) for j in range(3)] for i in range(3)], dtype=object)
    ks = [Sym(z3.Int("k%d" % i)) for i in range(3)]
    base = [z3.And(x.t >= -1, x.t <= 1) for x in Rs.flat] + [z3.And(k.t >= 0, k.t < 12) for k in ks]
    ex2 = Explorer(assumptions=base)

    def g():
        cc = m.encode_symm_int(Rs, np.array([k / 12 for k in ks], dtype=object))
        R2, t2 = m.decode_symm_int(cc)
        return cc, R2, t2
    paths2 = ex2.run(g)
    ctx.add_paths(ex2)
    ext2 = lambda mdl: {"R": [[mdl.eval(Rs[i, j].t, model_completion=True).as_long() for j in range(3)] for i in range(3)],
                        "k": [mdl.eval(k.t, model_completion=True).as_long() for k in ks]}
    for p in paths2:
        if p.exc is not None:
            ctx.harness_error("encode/decode raised symbolically: %r" % (p.exc,))
            return
        cc, R2, t2 = p.value
        goal = z3.And([(R2[i, j] == Rs[i, j]).t for i in range(3) for j in range(3)] + [(t2[i] * 12 == ks[i]).t for i in range(3)]
                      + [cc.t >= 0, cc.t < NCODES])
        tasks.append(dict(name="codec: decode(encode(R,k/12)) = (R,k/12), code in range, for all R,k", assumptions=p.pc, goal=goal, extract=ext2))
    res = ctx.query_many(tasks)
    for t, r in zip(tasks, res):
        if r.verdict == "cex":
            if "code" in r.model:
                ctx.violation("code:roundtrip", t["name"], r.model, replay_code)
            else:
                ctx.violation("rt:roundtrip", t["name"], r.model, replay_rt)


def part_c(ctx, m):
    """apply on (N,3), homogeneous (N,4) and Cartesian forms agree (symbolic rotation, translation, point, cell)."""
    R = np.array([[Sym(z3.Real("R%d%d" % (i, j))) for j in range(3)] for i in range(3)], dtype=object)
    t = np.array([Sym(z3.Real("t%d" % i)) for i in range(3)], dtype=object)
    x = np.array([[Sym(z3.Real("x%d" % i)) for i in range(3)]], dtype=object)
    ex = Explorer(assumptions=[z3.And(v.t > -3, v.t < 3) for v in t])

    def f():
        op = m.SymmetryOperation(R, t)
        x4 = np.array([[x[0, 0], x[0, 1], x[0, 2], 1]], dtype=object)
        first = op.apply(x4)
        first = np.array([[first[0, k] for k in range(first.shape[1])]], dtype=object)   # the values returned by the first call
        # the same array of homogeneous points handed to the operation a second time (as in a loop over a space group)
        return op.translation, op.apply(x), first, op(x), op.apply(x4)
    paths = ex.run(f)
    ctx.add_paths(ex)
    ctx.bound("(c) arbitrary real 3x3 rotation part, translation in (-3,3)^3, arbitrary point, arbitrary invertible cell")
    for p in paths:
        if p.exc is not None:
            ctx.harness_error("apply raised symbolically: %r" % (p.exc,))
            return
        tw, a3, a4, ac, a4b = p.value
        ext = lambda mdl: {"R": [[model_value(mdl, R[i, j].t) for j in range(3)] for i in range(3)],
                           "t": [model_value(mdl, v.t) for v in t], "x": [model_value(mdl, v.t) for v in x[0]]}
        for i in range(3):
            wrapped = z3.And(tw[i].t >= 0, tw[i].t < 1, z3.IsInt(tw[i].t - t[i].t))
            want = sum(R[i, j] * x[0, j] for j in range(3)) + tw[i]
            goals = {"translation wrapped into [0,1) by an integer": wrapped,
                     "apply (N,3) = R x + t": (a3[0, i] == want).t,
                     "apply (N,4) = R x + t": (a4[0, i] == want).t,
                     "apply (N,4) on the same array again = R x + t": (a4b[0, i] == want).t,
                     "__call__ = apply": (ac[0, i] == want).t}
            for nm, g in goals.items():
                r = ctx.query("apply[%d]: %s" % (i, nm), p.pc, g, ex=ex)
                if r.verdict == "cex":
                    ctx.violation("apply:forms", nm, ext(r.model), replay_apply)
        if a4.shape[1] == 4:
            h = a4[0, 3] == 1
            r = ctx.query("apply (N,4): homogeneous coordinate stays 1", p.pc, h.t if hasattr(h, "t") else z3.BoolVal(bool(h)), ex=ex)
    # the symbolic arrays above carry no machine type: the same identities on the real class for the array types callers use
    okt = True
    for Rg, tg in (([[0, -1, 0], [1, -1, 0], [0, 0, 1]], [1 / 3, 2 / 3, 0.5]), ([[-1, 0, 0], [0, -1, 0], [0, 0, -1]], [0.25, 0.75, 1 / 12])):
        rbad, det = replay_apply({"R": Rg, "t": tg, "x": [0.1, 0.27, -0.4]})
        if rbad and okt:
            okt = False
            ctx.violation("apply:forms", "apply / seitz_matrix depend on the array type of the rotation part: %s" % det[0], {"R": Rg, "t": tg, "x": [0.1, 0.27, -0.4]}, replay_apply)
    ctx.record("apply / seitz_matrix for rotation parts given as float and integer arrays (ground instances)", "holds" if okt else "counterexample", nontrivial=True, method="ground instances")
    # Cartesian form via Crystal.cartesian_symmetry_operations on a symbolic cell (direct D, inverse I with D.I = I)
    cm = load_shimmed("chmpy.crystal.crystal")
    D = np.array([[Sym(z3.Real("d%d%d" % (i, j))) for j in range(3)] for i in range(3)], dtype=object)
    Iv = np.array([[Sym(z3.Real("i%d%d" % (i, j))) for j in range(3)] for i in range(3)], dtype=object)
    P = np.array([[Sym(z3.Real("P%d%d" % (i, j))) for j in range(3)] for i in range(3)], dtype=object)

    class Cell:
        direct, inverse = D, Iv

        def to_cartesian(self, c):
            return np.dot(c, self.direct)

    class SG:
        pass
    cr = cm.Crystal.__new__(cm.Crystal)
    cr.unit_cell = Cell()
    op = m.SymmetryOperation.__new__(m.SymmetryOperation)
    op.rotation, op.translation = R, t
    sg = SG()
    sg.symmetry_operations = [op]
    cr.space_group = sg
    ex = Explorer()
    paths = ex.run(lambda: cr.cartesian_symmetry_operations())
    ctx.add_paths(ex)
    ctx.stub("(c) unit cell = symbolic direct matrix D and inverse I related by I.D = identity (C12 establishes this for real cells)")
    for p in paths:
        if p.exc is not None:
            ctx.harness_error("cartesian_symmetry_operations raised symbolically: %r" % (p.exc,))
            return
        Rc, tc = p.value[0]
        f = x
        got = np.dot(np.dot(f, D), Rc) + tc          # cart(f).Rc + tc
        # want = (f R^T + t) D ; got = f D I R^T D + t D = f (D I) R^T D + t D -> chain with P := D I
        want_P = np.dot(np.dot(np.dot(f, P), R.T), D) + np.dot(t, D)
        DI = np.dot(D, Iv)
        sub = [(P[i, j].t, DI[i, j].t) for i in range(3) for j in range(3)]
        ok = True
        for k in range(3):
            r1 = ctx.query("cartesian[%d]: cart(f).Rc + tc = f.(D.I).R^T.D + t.D [identity]" % k, [],
                           got[0, k].t == z3.substitute(want_P[0, k].t, *sub), vacuity=False)
            ident = [(P[i, j].t, z3.RealVal(1 if i == j else 0)) for i in range(3) for j in range(3)]
            want = (np.dot(np.dot(f, R.T) + t, D))[0, k]
            r2 = ctx.query("cartesian[%d]: with D.I = 1 this is cart(R f + t)" % k, [],
                           z3.substitute(want_P[0, k].t, *ident) == want.t, vacuity=False)
            ok = ok and r1.holds and r2.holds
        if not ok:
            ctx.violation("cart:form", "Cartesian symmetry operation differs from the fractional one",
                          {"lengths": [5.0, 7.0, 9.0], "angles": [1.3, 1.9, 1.1], "sg": 14, "f": [0.13, 0.29, 0.71]}, replay_cart)


def part_b(ctx, m, real, thorough):
    """FP64: translations k/12 + n + eps give the same code / hash / text as k/12."""
    ctx.bound("(b) one perturbed axis at a time, |eps| <= 1e-12, integer offsets n in %s, k in 0..11, all doubles in each window"
              % ("[-4,4]" if thorough else "{-1,0,1} on axis 0 and {0} on axes 1,2"))
    ctx.stub("(b) Fraction(x).limit_denominator(12) of a double within 1e-9 of j/12 (0<=j<=12) is j/12 (CPython; validated concretely)")
    okf = all(Fraction(float(Fraction(j, 12)) + e).limit_denominator(12) == Fraction(j, 12) for j in range(13) for e in (0, 3e-13, -3e-13, 9e-10))
    ctx.fidelity_check("limit_denominator contract", okf)

    qterms = []

    class SymFrac:
        """Stands in for fractions.Fraction inside the shimmed module."""

        def __new__(cls, *a):
            if len(a) == 1 and isinstance(a[0], SymFP):
                o = object.__new__(cls)
                o.fp = a[0]
                return o
            return Fraction(*a)

        def limit_denominator(self, n):
            assert n == 12
            q = (self.fp * 12).rint().to_int()
            qterms.append(q)
            ex = symx._EX
            v = ex.choose(q, list(range(0, 13)))
            return Fraction(v, 12)

    m.Fraction = SymFrac
    # hash: a function of the packed code only (two operations with the same cached code hash equally
    # whatever their other fields hold) -- then equal codes give equal hashes
    h_ok = True
    for sentinel in (5, 16484, 33999999):
        o1 = real.SymmetryOperation(np.eye(3), np.array([0.1, 0.2, 0.3]))
        o2 = real.SymmetryOperation(-np.eye(3), np.array([0.5, 0.0, 0.75]))
        o1._integer_code = o2._integer_code = sentinel
        h_ok = h_ok and hash(o1) == hash(o2) and (o1 == o2)
    # ... and on the real objects: equal modulo the lattice (integer shifts, noise across the 0/1 wrap) <=> equal, same hash
    eq_bad = None
    Rz = np.array([[0., -1, 0], [1, 0, 0], [0, 0, 1]])
    for t in ([0.0, 0.5, 0.25], [1 / 3, 2 / 3, 0.0], [0.75, 1 / 12, 11 / 12]):
        for n in ([0, 0, 0], [1, 0, 0], [-1, 2, 0], [0, -2, 3], [1, 1, 1]):
            for noise in (0.0, 1e-13, -1e-13):
                a_ = real.SymmetryOperation(Rz, np.array(t))
                b_ = real.SymmetryOperation(Rz, np.array(t) + np.array(n) + noise)
                if not (a_ == b_) or hash(a_) != hash(b_):
                    eq_bad = eq_bad or {"R": Rz.tolist(), "tref": list(t), "t": (np.array(t) + np.array(n) + noise).tolist()}
        c_ = real.SymmetryOperation(Rz, np.array(t) + np.array([0.5, 0, 0]))
        if real.SymmetryOperation(Rz, np.array(t)) == c_:
            eq_bad = eq_bad or {"R": Rz.tolist(), "tref": list(t), "t": (np.array(t) + np.array([0.5, 0, 0])).tolist(), "distinct": True}
    ctx.record("fp: __hash__/__eq__ depend on the packed code only, and operations equal modulo the lattice compare and hash equal (ground instances)",
               "holds" if (h_ok and eq_bad is None) else "counterexample", nontrivial=True)
    if not h_ok or eq_bad is not None:
        ctx.violation("eq:lattice", "operations that differ by a lattice translation (or rounding noise across the wrap) do not compare equal / equality is not decided by the packed code",
                      eq_bad or {"R": np.eye(3).tolist(), "tref": [0.25, 0.5, 0.0], "t": [1.25, -0.5, 3.0]}, replay_fp)
    x = SymFP(z3.FP("x", F64))
    xr = z3.fpToReal(x.t)
    axes_ns = [(0, n) for n in ((-4, -3, -2, -1, 0, 1, 2, 3, 4) if thorough else (-1, 0, 1))] + [(1, 0), (2, 0)]
    if thorough:
        axes_ns += [(1, -1), (2, -1), (1, 3), (2, -2)]
    Rm = np.array([[0., -1, 0], [1, 0, 0], [0, 0, 1]])
    tasks = []
    for axis, n in axes_ns:
        tbase = [0.25, 0.5, 1 / 3]
        ex = Explorer()

        def f():
            tv = np.array(tbase, dtype=object)
            tv[axis] = x
            op = m.SymmetryOperation(Rm, tv)
            return op.integer_code, None, str(op), op.translation[axis]
        del qterms[:]
        paths = ex.run(f)
        ctx.add_paths(ex)
        if any(p.exc is not None for p in paths):
            ctx.harness_error("SymmetryOperation on a symbolic double raised: %r" % ([p.exc for p in paths if p.exc is not None][0],))
            continue
        # text as a function of q = rint(12 * (x % 1)) gathered from the 13 paths (concrete on each)
        q = qterms[0]
        text_of = {p.decisions[-1][1]: p.value[2] for p in paths}
        code = paths[0].value[0]
        bad = []
        for k in range(12):
            centre = Fraction(k, 12) + n
            lo, hi = float(centre) - 1e-12, float(centre) + 1e-12
            tref = list(tbase)
            tref[axis] = k / 12
            ref = real.SymmetryOperation(Rm, np.array(tref))
            inw = z3.And(z3.fpGEQ(x.t, fpval(lo)), z3.fpLEQ(x.t, fpval(hi)))
            good_q = [v for v, txt in text_of.items() if txt == str(ref)]
            differs = z3.Or(code.t != int(ref.integer_code), z3.And([q.t != v for v in good_q]))
            bad.append(z3.And(inw, differs))

        def ext(mdl, axis=axis, n=n, tbase=tbase):
            xf = _fp_to_float(mdl.eval(x.t, model_completion=True))
            k = round((xf - n) * 12) % 12
            t, tref = list(tbase), list(tbase)
            t[axis], tref[axis] = xf, k / 12
            return {"t": t, "tref": tref, "R": Rm.tolist(), "x": xf}
        tasks.append(dict(name="fp: axis %d, n=%d: same code and text as k/12 for every double within 1e-12 of k/12+n (12 windows, text via q in 0..12)"
                          % (axis, n), assumptions=[z3.Or(bad)], expect="sat", expect_strict=None,
                          extract=ext, timeout=ctx.default_timeout * 3))
    res = ctx.query_many(tasks)
    for t, r in zip(tasks, res):
        if r.verdict == "cex":
            d = r.model
            key = "fp:wrap-to-one" if abs(d["x"] - round(d["x"])) < 1e-9 and d["x"] < round(d["x"]) else "fp:window"
            ctx.violation(key, "translation %r does not give the operation of %r" % (d["t"], d["tref"]), d, replay_fp)
    # rename verdicts for readability: for these twins 'unsat' means the property holds on the path
    for q in ctx.queries:
        if q["name"].startswith("fp: axis") and "expect" in q:
            q["verdict"] = {"unsat": "holds", "sat": "counterexample"}.get(q["verdict"], q["verdict"])
            q.pop("expect", None)


def _fp_to_float(v):
    # z3 FPNumRef -> python float
    import struct
    if v.isNaN():
        return float("nan")
    if v.isInf():
        return float("-inf") if v.isNegative() else float("inf")
    sign = 1 if v.sign() else 0
    bits = (sign << 63) | (v.exponent_as_long(biased=True) << 52) | v.significand_as_long()
    return struct.unpack("<d", struct.pack("<Q", bits))[0]


def part_d(ctx, real, thorough):
    """String forms.  A row is (R_i in {-1,0,1}^3, k in [0,12)): the explorer forks over the
    feasible values (finite choice space -- enumeration; the solver only prunes), the text is
    concrete on each path."""
    ctx.bound("(d) one row at a time: all 27 x 12 (R_i,k) rows with R_i != 0, every spelling of the grammar "
              "(term order, blanks, case, leading +, fraction/decimal/negative fraction); plus every operation of all 530 settings")
    ctx.out_of_scope("'print identically' for operations built from different user strings (from_string_code echoes its input by design); "
                     "decimals with < 5 digits")
    r = [Sym(z3.Int("row%d" % j)) for j in range(3)]
    k = Sym(z3.Int("k"))
    base = [z3.And(v.t >= -1, v.t <= 1) for v in r] + [k.t >= 0, k.t < 12, z3.Or([v.t != 0 for v in r])]
    ex = Explorer(assumptions=base, max_paths=400, int_fork_bound=30)
    failures = []
    count = [0, 0]

    def f():
        row = [int(v) for v in r]
        kk = int(k)
        R = np.zeros((3, 3))
        R[0], R[1], R[2] = row, (0, 1, 0), (0, 0, 1)
        t = np.array([kk / 12, 0.0, 0.0])
        want = int(real.encode_symm_int(R, t))
        # canonical text of the real encoder must read back
        s = real.encode_symm_str(R, t)
        R2, t2 = real.decode_symm_str(s)
        count[0] += 1
        if int(real.encode_symm_int(R2, t2)) != want:
            failures.append((s, want))
        sp = spellings(row, kk)
        if not thorough:
            sp = sp[:: max(1, len(sp) // 24)]
        for first in sp:
            txt = first + ",y,z"
            count[1] += 1
            try:
                got = int(real.SymmetryOperation.from_string_code(txt).integer_code)
            except Exception as e:
                got = "raises %s" % type(e).__name__
            if got != want:
                failures.append((txt, want))
        return None
    t0 = time.time()
    paths = ex.run(f)
    ctx.add_paths(ex)
    ctx.record("strings: %d rows x spellings (%d texts) decode to the operation they spell" % (count[0], count[1]),
               "holds" if not failures else "counterexample", seconds=time.time() - t0, nontrivial=True,
               sample={"row": [1, -1, 0], "k": 4, "spellings": spellings([1, -1, 0], 4)[:6]})
    for txt, want in failures[:3]:
        ctx.violation("str:spelling", "spelling %r is not read as the operation it denotes" % txt, {"s": txt, "code": want}, replay_str)
    # every tabulated operation: code -> text -> code
    from chmpy.crystal.space_group import SG_FROM_NUMBER
    codes = sorted({c for v in SG_FROM_NUMBER.values() for sg in v for c in sg.symops})
    t0 = time.time()
    bad = [c for c in codes if replay_str_rt({"code": c})[0]]
    ctx.record("strings: %d distinct tabulated operations print and read back to the same code" % len(codes),
               "holds" if not bad else "counterexample", seconds=time.time() - t0, nontrivial=True)
    for c in bad[:2]:
        ctx.violation("strrt:table", "tabulated operation does not survive printing", {"code": c}, replay_str_rt)
