"""C17  Element lookup is total, exact and consistent across all spellings.

E-A: CrossHair contracts (c17_contracts.py) over strings/ints calling the real functions.
E-B: symx runs of from_atomic_number / __lt__ / __eq__ / radius helpers on symbolic integers
     (all of Z, no bound), each decided in LIA."""
import importlib
import numbers
import os
import time

import numpy as np
import z3

from .. import chx, symx
from ..symx import Sym, Explorer, load_shimmed
from .ref_elements import SYMBOLS, NAMES

CONTRACTS = os.path.join(os.path.dirname(__file__), "c17_contracts.py")


def replay_contract(data):
    mod = importlib.import_module("verif.props.c17_contracts")
    importlib.reload(mod)
    fn = getattr(mod, data["contract"])
    try:
        r = fn(*data["args"])
    except Exception as e:
        return True, "%s%r raises %s: %s" % (data["contract"], tuple(data["args"]), type(e).__name__, e)
    return (not r), "%s%r returns %r" % (data["contract"], tuple(data["args"]), r)


def replay_number(data):
    from chmpy.core.element import Element
    n = int(data["n"])
    try:
        e = Element[n]
    except Exception as ex:
        return (1 <= n <= 103), "Element[%d] raises %s" % (n, type(ex).__name__)
    if not (1 <= n <= 103):
        return True, "Element[%d] returns %r (atomic number %r) instead of an error" % (n, e, e.atomic_number)
    ok = e.atomic_number == n and e.symbol == SYMBOLS[n - 1] and e.name.lower() == NAMES[n - 1]
    return (not ok), "Element[%d] = %s/%s" % (n, e.symbol, e.name)


def replay_order(data):
    from chmpy.core.element import Element
    a, b, c = (Element[int(x)] for x in data["abc"])
    na, nb, nc = (int(x) for x in data["abc"])

    def key(n):
        return (0, 0) if n == 6 else (1, n)
    bad = []
    if (a < b) != (key(na) < key(nb)) or (b < c) != (key(nb) < key(nc)) or (a < c) != (key(na) < key(nc)):
        bad.append("order differs from (carbon first, then atomic number)")
    if (a == b) != (na == nb):
        bad.append("== differs from equality of atomic numbers")
    return bool(bad), bad


def replay_radii(data):
    from chmpy.core import element as E
    n = int(data["n"])
    arr = np.array([n])
    out = []
    for fn in (E.cov_radii, E.vdw_radii, E.element_names, E.element_symbols):
        try:
            v = fn(arr)
            if not (1 <= n <= 103):
                out.append("%s([%d]) returns %r instead of an error" % (fn.__name__, n, v))
            elif fn is E.element_symbols and v[0] != SYMBOLS[n - 1]:
                out.append("element_symbols wrong row")
            elif fn is E.element_names and v[0].lower() != NAMES[n - 1]:
                out.append("element_names wrong row")
        except ValueError:
            if 1 <= n <= 103:
                out.append("%s([%d]) raises" % (fn.__name__, n))
    return bool(out), out


REPLAY = {"ch": replay_contract, "num": replay_number, "order": replay_order, "radii": replay_radii}


class SymI(Sym):
    """a symbolic integer that numbers.Integral recognises (for Element[...] dispatch)"""
    __slots__ = ()


numbers.Integral.register(SymI)


def run(ctx):
    from chmpy.core import element as real
    ctx.encode(real._ElementMeta.__getitem__, real.Element.from_string, real.Element.from_label, real.Element.from_atomic_number,
               real.Element.__lt__, real.Element.__eq__, real.Element.__hash__, real.chemical_formula, real.cov_radii, real.vdw_radii,
               real.element_names, real.element_symbols)
    thorough = ctx.tier == "thorough"
    ctx.bound("CrossHair: strings of length <= 3 over [a-zA-Z0-9 _-]; integers -200..300; 103 elements x 8 spelling variants x digits 0..99 x 4 suffixes; "
              "formula lists of <= 4 elements.  symx: all integers (no bound) for numeric lookup, ordering and the radius helpers")
    ctx.assume("reference table of IUPAC symbols/names (verif/props/ref_elements.py) is the oracle for 'that element'")
    ctx.out_of_scope("strings longer than 3 characters other than the generated spelling variants; non-ASCII letters; radii/mass values (no independent reference)")

    # reference vs table: ground facts
    ok = all(real._ELEMENT_DATA[i][1] == SYMBOLS[i] and real._ELEMENT_DATA[i][0].lower() == NAMES[i] for i in range(103)) and len(real._ELEMENT_DATA) == 103
    ctx.record("table rows 1..103 carry the reference symbol and name in atomic-number order (ground)", "holds" if ok else "counterexample", nontrivial=True)
    if not ok:
        badrow = next(i for i in range(min(103, len(real._ELEMENT_DATA))) if real._ELEMENT_DATA[i][1] != SYMBOLS[i] or real._ELEMENT_DATA[i][0].lower() != NAMES[i])
        ctx.violation("num:table", "element table row %d is not %s" % (badrow + 1, SYMBOLS[badrow]), {"n": badrow + 1}, replay_number)

    # finite spelling-variant space: complete enumeration of ground instances of the CrossHair contract (not a solver verdict)
    from . import c17_contracts as K
    importlib.reload(K)
    t0 = time.time()
    fails = []
    n_inst = 0
    for z in range(1, 104):
        for v in range(8):
            for d in ((0,) if v < 6 else (0, 1, 9, 10, 42, 99)):
                for sfx in ((0,) if v < 6 else range(4)):
                    n_inst += 1
                    try:
                        okv = K._variants_complete(z, v, d, sfx)
                    except Exception:
                        okv = False
                    if not okv:
                        fails.append([z, v, d, sfx])
    ctx.record("spelling variants: %d ground instances of _variants_complete (103 elements x 8 variants x digits x suffixes), enumerated completely" % n_inst,
               "holds" if not fails else "counterexample", seconds=time.time() - t0, nontrivial=True, method="enumeration")
    if fails:
        ctx.violation("ch:_variants_complete", "spelling variant %r does not return its element" % (fails[0],),
                      {"contract": "_variants_complete", "args": fails[0]}, replay_contract)

    # formula with multiplicities of one, two and three digits, plain and with unicode subscripts: ground instances of the contract
    # _formula_large_counts (CrossHair does not reach two-digit list lengths within its budget)
    ffail = None
    nf = 0
    for (z1, z2) in ((6, 1), (1, 8), (17, 6), (92, 35)):
        for n1 in (1, 2, 9, 10, 12, 25):
            for n2 in (0, 1, 2, 10, 11, 99, 100, 123):
                for sub in (False, True):
                    nf += 1
                    try:
                        okf = K._formula_large_counts(z1, z2, n1, n2, sub)
                    except Exception:
                        okf = False
                    if not okf and ffail is None:
                        ffail = [z1, z2, n1, n2, sub]
    ctx.record("chemical_formula: %d ground instances with one- to three-digit multiplicities, plain and subscript" % nf, "holds" if ffail is None else "counterexample",
               nontrivial=True, method="enumeration")
    if ffail:
        ctx.violation("ch:_formula_large_counts", "chemical_formula%r is not symbol + count written digit by digit" % (tuple(ffail),),
                      {"contract": "_formula_large_counts", "args": ffail}, replay_contract)

    ctx.parallel_sections([("crosshair", lambda c: crosshair_part(c, thorough)), ("symx", lambda c: symx_part(c, real))])


def crosshair_part(ctx, thorough):
    timeout = 600 if thorough else 75
    t0 = time.time()
    only = None if thorough else [c[0] for c in chx.conditions(CONTRACTS) if not c[0].endswith("_T")]
    res = chx.run_all(CONTRACTS, timeout, only=only)
    for name, (r, is_twin) in res.items():
        rec = {"name": "crosshair:" + name, "verdict": r["verdict"], "seconds": r["seconds"], "solver": "crosshair 0.0.110 / z3",
               "detail": r["detail"], "nontrivial": True}
        if is_twin:
            rec["expect"] = "counterexample (reachability twin, post: False)"
            ctx.queries.append(rec)
            if r["verdict"] != "counterexample":
                ctx.mark_inconclusive("crosshair:" + name, "reachability twin not refuted: %s" % r["detail"])
            continue
        ctx.queries.append(rec)
        if r["verdict"] == "unknown":
            ctx.mark_inconclusive("crosshair:" + name, r["detail"])
        elif r["verdict"] == "counterexample":
            args = chx.parse_call(r["detail"], name)
            if args is None:
                ctx.harness_error("could not parse CrossHair counterexample: %s" % r["detail"])
                continue
            ctx.violation("ch:" + name, "contract %s fails: %s" % (name, r["detail"][:200]), {"contract": name, "args": list(args)}, replay_contract)


def symx_part(ctx, real):
    m = load_shimmed("chmpy.core.element")
    # ---- numeric lookup over all integers
    n = SymI(z3.Int("n"))
    ex = Explorer(max_paths=400, int_fork_bound=400)
    paths = ex.run(lambda: m.Element[n])
    ctx.add_paths(ex)
    bad = None
    covered = []
    for p in paths:
        sol = z3.Solver()
        sol.add(*p.pc)
        if str(sol.check()) != "sat":
            continue
        if p.exc is not None:
            # an error path is fine iff it only admits n outside 1..103
            r = ctx.query("number: error path (%s) only for n outside 1..103" % type(p.exc).__name__, p.pc, z3.Or(n.t < 1, n.t > 103))
            if r.verdict == "cex":
                bad = r.model.eval(n.t, model_completion=True).as_long()
        else:
            e = p.value
            mdl = sol.model()
            nv = mdl.eval(n.t, model_completion=True).as_long()
            r = ctx.query("number: path returning %s is taken exactly for n = %d" % (e.symbol, nv), p.pc, n.t == nv, vacuity=False)
            okrow = 1 <= nv <= 103 and e.symbol == SYMBOLS[nv - 1] and e.name.lower() == NAMES[nv - 1] and bool(z3.is_true(z3.simplify((e.atomic_number == nv).t if isinstance(e.atomic_number, Sym) else z3.BoolVal(e.atomic_number == nv))) or r.holds)
            covered.append(nv)
            if r.verdict == "cex" or not okrow:
                bad = nv if not okrow else r.model.eval(n.t, model_completion=True).as_long()
    miss = [z for z in range(1, 104) if z not in covered]
    ctx.record("number: every n in 1..103 has a returning path with its reference row (%d paths)" % len(paths),
               "holds" if not miss and bad is None else "counterexample", nontrivial=True)
    if bad is not None or miss:
        ctx.violation("num:lookup", "numeric lookup wrong for n=%s" % (bad if bad is not None else miss[0]), {"n": bad if bad is not None else miss[0]}, replay_number)

    # ---- ordering over all positive integers (symbolic atomic numbers in real Element objects)
    a, b, c = (Sym(z3.Int(x)) for x in "abc")
    A, B, C = (m.Element(v, "x", "X", 1.0, 1.0, 1.0) for v in (a, b, c))
    ex = Explorer(max_paths=3000)

    def rel():
        return tuple(bool(x) for x in (A < B, B < A, A == B, B < C, A < C, m.Element(6, "c", "C", 1, 1, 1) < A, A < A))
    paths = ex.run(rel)
    ctx.add_paths(ex)
    worst = None
    for p in paths:
        if p.exc is not None:
            ctx.harness_error("ordering raised symbolically: %r" % (p.exc,))
            break
        ab, ba, eq, bc, ac, c6, aa = (bool(x) for x in p.value)
        law = (ab + ba + eq == 1) and (not (ab and bc) or ac) and not aa
        if not law:
            worst = p
            break
        # semantic: carbon first then atomic number; == iff numbers equal
        key = lambda v: z3.If(v.t == 6, z3.IntVal(-1), v.t)
        goal = z3.And((key(a) < key(b)) == ab, (a.t == b.t) == eq, (key(a) < key(c)) == ac, z3.Or(a.t == 6, z3.BoolVal(c6)))
        r = ctx.query("order: path %s agrees with (carbon first, then atomic number)" % (p.decisions,), p.pc + [a.t >= 1, b.t >= 1, c.t >= 1], goal)
        if r.verdict == "cex":
            worst = (p, r.model)
            break
    ctx.record("order: strict total order laws (trichotomy, transitivity, irreflexivity) on all %d feasible paths" % len(paths),
               "holds" if worst is None else "counterexample", nontrivial=True)
    if worst is not None:
        if isinstance(worst, tuple):
            mdl = worst[1]
        else:
            s = z3.Solver()
            s.add(*worst.pc)
            s.add(a.t >= 1, a.t <= 103, b.t >= 1, b.t <= 103, c.t >= 1, c.t <= 103)
            mdl = s.model() if str(s.check()) == "sat" else None
        abc = [min(103, max(1, mdl.eval(v.t, model_completion=True).as_long())) for v in (a, b, c)] if mdl is not None else [6, 1, 7]
        ctx.violation("order:laws", "Element ordering is not 'carbon first, then atomic number'", {"abc": abc}, replay_order)

    # ---- vectorised helpers: range check for all integers, row binding by forking
    for fname, col in (("cov_radii", 2), ("vdw_radii", 3), ("element_names", 0), ("element_symbols", 1)):
        k = Sym(z3.Int("k"))
        ex = Explorer(max_paths=400, int_fork_bound=400)
        paths = ex.run(lambda: getattr(m, fname)(np.array([k], dtype=object)))
        ctx.add_paths(ex)
        badn = None
        rows = 0
        for p in paths:
            s = z3.Solver()
            s.add(*p.pc)
            if str(s.check()) != "sat":
                continue
            kv = s.model().eval(k.t, model_completion=True).as_long()
            if p.exc is not None:
                if not isinstance(p.exc, ValueError):
                    badn = kv
                r = ctx.query("%s: error path only for numbers outside 1..103" % fname, p.pc, z3.Or(k.t < 1, k.t > 103))
                if r.verdict == "cex":
                    badn = r.model.eval(k.t, model_completion=True).as_long()
            else:
                rows += 1
                want = real._ELEMENT_DATA[kv - 1][col] if 1 <= kv <= 103 else None
                got = p.value[0]
                if want is None or (abs(float(got) - want) > 1e-6 if col in (2, 3) else got != want):
                    badn = kv
        ctx.record("%s: %d rows bound to their atomic number, errors exactly outside 1..103" % (fname, rows),
                   "holds" if badn is None and rows == 103 else "counterexample", nontrivial=True)
        if badn is not None or rows != 103:
            ctx.violation("radii:" + fname, "%s wrong for atomic number %s" % (fname, badn), {"n": badn if badn is not None else 0}, replay_radii)
