"""C16  Saving a molecule to XYZ or SDF and loading it back reproduces it.

The real writers run on symbolic coordinates / counts / bond indices; formatted numbers are
placeholder strings of the exact printed length (symtext), so the real readers slice and
split real text.  A token that is not one whole written field is a shifted/cut column."""
import time
from fractions import Fraction

import numpy as np
import z3

from .. import symx, symtext
from ..symx import Sym, Explorer, load_shimmed, model_value
from ..symtext import TextModel, sym_float, sym_int


# ----------------------------------------------------------------------------------- replay
def _mol(data):
    from chmpy.core.molecule import Molecule
    Z = np.array(data["Z"])
    pos = np.array(data["pos"], float).reshape(-1, 3)
    m = Molecule.from_arrays(Z, pos)
    if data.get("comment") is not None:
        m.properties["comment"] = data["comment"]
    return m


def replay_sdf(data):
    bad_all = []
    cases = [data]
    if not data.get("_single"):
        # also: a chain of 70 bonded carbon atoms (138 bond lines: the atom and bond counts fill their 3-column fields and abut)
        # and 120 unbonded atoms (three-digit atom count)
        chain = np.c_[1.4 * np.arange(70), 0.3 * (np.arange(70) % 2), np.zeros(70)]
        cases.append({"Z": [6] * 70, "pos": chain.tolist(), "bonds": True, "_single": True})
        grid = np.array([[3.1 * (i % 5), 3.1 * ((i // 5) % 5), 3.1 * (i // 25)] for i in range(120)], float)
        cases.append({"Z": [8] * 120, "pos": grid.tolist(), "_single": True})
    for d in cases:
        r, b = _replay_sdf_one(d)
        if r:
            bad_all += ["%d atoms%s: %s" % (len(d["Z"]), " with bonds" if d.get("bonds") else "", x) for x in b[:2]]
    return bool(bad_all), bad_all[:3]


def _replay_sdf_one(data):
    import os
    import tempfile
    from chmpy.core.molecule import Molecule
    from chmpy.fmt.sdf import parse_sdf_contents
    m = _mol(data)
    if data.get("bonds"):
        m.guess_bonds()
    bad = []
    try:
        text = m.to_sdf_string()
        d = tempfile.mkdtemp()
        # the format is chosen from the file name's suffix in any letter case (save and load must choose alike)
        for alt in ("M.SDF", "m.Sdf"):
            fa = os.path.join(d, alt)
            m.save(fa)
            head = open(fa).read().splitlines()
            ma = Molecule.load(fa)
            os.remove(fa)
            if len(head) < 4 or head[3][34:39] != "V2000":
                bad.append("file %s written by save() is not an SDF record (line 4: %r)" % (alt, head[3] if len(head) > 3 else None))
            elif isinstance(ma, list) or [e.atomic_number for e in ma.elements] != [e.atomic_number for e in m.elements]:
                bad.append("file %s does not read back as the molecule written" % alt)
        f = os.path.join(d, "m.sdf")
        # the path held another molecule before (written and read): what is read afterwards is what the file holds now
        other = Molecule.from_arrays(np.array([e.atomic_number for e in m.elements][::-1] + [2]), np.vstack([np.asarray(m.positions, float)[::-1] + 0.25, [[9.0, 9.0, 9.0]]]))
        other.save(f)
        Molecule.load(f)
        m.save(f)
        m2 = Molecule.load(f)
        os.remove(f)
        os.rmdir(d)
        if isinstance(m2, list):
            bad.append("one record read back as %d molecules" % len(m2))
            m2 = m2[0]
        if [e.atomic_number for e in m2.elements] != [e.atomic_number for e in m.elements]:
            bad.append("elements differ after SDF round trip")
        elif not np.allclose(np.asarray(m2.positions, float), m.positions, rtol=0, atol=0.5e-4 + 1e-9):
            bad.append("coordinates differ after SDF round trip: wrote %s read %s" % (m.positions.tolist(), np.asarray(m2.positions).tolist()))
        lines = text.splitlines()
        cl = lines[3]
        if len(cl) < 39 or cl[:3].strip() != str(len(m)) or cl[34:39] != "V2000":
            bad.append("counts line not in V2000 columns: %r" % cl)
        for k, ln in enumerate(lines[4:4 + len(m)]):
            if len(ln) < 34 or ln[30] != " " or ln[31:34].strip() != m.elements[k].symbol:
                bad.append("atom line %d not in V2000 columns: %r" % (k, ln))
                break
    except Exception as e:
        bad.append("SDF round trip raises %s: %s" % (type(e).__name__, e))
    return bool(bad), bad


def replay_sdf_multi(data):
    from chmpy.fmt.sdf import parse_sdf_contents
    from chmpy.core.molecule import Molecule
    mols = [_mol(d) for d in data["records"]]
    bad = []
    try:
        text = "".join(m.to_sdf_string() for m in mols)        # the records as written, one after the other
        recs = parse_sdf_contents(text)
        if len(recs) != len(mols):
            bad.append("%d records read from a file of %d" % (len(recs), len(mols)))
        else:
            for r, m in zip(recs, mols):
                m2 = Molecule.from_sdf_dict(r)
                if [e.atomic_number for e in m2.elements] != [e.atomic_number for e in m.elements] or not np.allclose(
                        np.asarray(m2.positions, float), m.positions, atol=0.5e-4 + 1e-9):
                    bad.append("records out of order or changed")
                    break
    except Exception as e:
        bad.append("multi-record SDF raises %s: %s" % (type(e).__name__, e))
    return bool(bad), bad


def replay_xyz(data):
    import os
    import tempfile
    from chmpy.core.molecule import Molecule
    m = _mol(data)
    bad = []
    try:
        d = tempfile.mkdtemp()
        for alt in ("M.XYZ", "m.Xyz"):
            fa = os.path.join(d, alt)
            m.save(fa)
            ma = Molecule.load(fa)
            os.remove(fa)
            if [e.atomic_number for e in ma.elements] != [e.atomic_number for e in m.elements] or not np.allclose(np.asarray(ma.positions, float), m.positions, rtol=0, atol=1e-9 + 1e-15 * np.abs(m.positions).max()):
                bad.append("file %s does not read back as the molecule written" % alt)
        f = os.path.join(d, "m.xyz")
        # the path held another molecule before (written and read): what is read afterwards is what the file holds now
        other = Molecule.from_arrays(np.array([e.atomic_number for e in m.elements][::-1] + [2]), np.vstack([np.asarray(m.positions, float)[::-1] + 0.25, [[9.0, 9.0, 9.0]]]))
        other.save(f)
        Molecule.load(f)
        m.save(f)
        text = open(f).read()
        m2 = Molecule.load(f)
        os.remove(f)
        os.rmdir(d)
        if data.get("respell"):
            lines = text.splitlines()
            out = lines[:2]
            for ln in lines[2:]:
                t = ln.split()
                out.append("   " + t[0].upper() + "\t " + "    ".join(t[1:]) + "  ")
            m2 = Molecule.from_xyz_string("\n".join(out))
        if [e.atomic_number for e in m2.elements] != [e.atomic_number for e in m.elements]:
            bad.append("elements differ after XYZ round trip")
        elif not np.allclose(np.asarray(m2.positions, float), m.positions, rtol=0, atol=0.5e-12 + 1e-15 * np.abs(m.positions).max()):
            bad.append("coordinates differ after XYZ round trip")
    except Exception as e:
        bad.append("XYZ round trip raises %s: %s" % (type(e).__name__, e))
    return bool(bad), bad


REPLAY = {"sdf": replay_sdf, "sdfmulti": replay_sdf_multi, "xyz": replay_xyz}


# ----------------------------------------------------------------------------------- run
def run(ctx):
    from chmpy.core.molecule import Molecule
    from chmpy.fmt import sdf as realsdf, xyz_file as realxyz
    ctx.encode(Molecule.to_sdf_string, Molecule.to_xyz_string, Molecule.from_sdf_dict.__func__, Molecule.from_xyz_string.__func__,
               realsdf.to_atom_line, realsdf.to_bond_line, realsdf.to_counts_line, realsdf.to_sdf_string, realsdf.parse_counts_line,
               realsdf.parse_atom_lines, realsdf.parse_bond_lines, realsdf.parse_sdf_contents, realxyz.parse_xyz_string)
    ctx.bound("SDF: every coordinate triple in [-9999.9999, 99999.9999]^3 (1000 sign/digit-count classes per atom line, all forked), atom and bond counts 0..999, "
              "bond indices 1..999, 1-2 atoms per record, 1-3 records; XYZ: coordinates |x| < 10^4 (quick) / 10^6 (thorough), 1 atom per line")
    ctx.assume("CPython formatting model: '{:W.Pf}' prints sign + k integer digits + '.' + P digits right-aligned in W with |printed - x| <= 0.5*10^-P; "
               "'{:Wd}' prints sign + k digits; validated against CPython on boundary values at run start")
    ctx.stub("float()/int() on a token: the written value if the token is exactly one whole written field, ValueError otherwise; Path.read_text/write_text = identity")
    ctx.out_of_scope("coordinates outside the stated range; bond perception (guess_bonds); M CHG/ISO property lines")

    # model validation against CPython
    ok = True
    for v, spec in ((9.99995, "10.4f"), (-9.99995, "10.4f"), (99999.99995, "10.4f"), (-0.00001, "10.4f"), (123456.7, " 20.12f"), (0.5e-12, " 20.12f"),
                    (100, " 3d"), (99, " 3d"), (100, "3d"), (7, "3d"), (-1234.5678, "10.4f")):
        txt = format(v, spec)
        if spec.endswith("f"):
            p = int(spec.split(".")[1][:-1])
            body = txt.strip().lstrip("+-")
            k = len(body.split(".")[0])
            r = float(txt)
            ok = ok and abs(r - v) <= 0.5 * 10 ** -p + 1e-12 * max(1.0, abs(v)) and len(txt) == max(int(spec.strip().split(".")[0]), (1 if (v < 0 or spec[0] in " +") else 0) + k + 1 + p)
        else:
            k = len(str(abs(v)))
            w = int(spec.strip()[:-1])
            ok = ok and len(txt) == max(w, (1 if (v < 0 or spec[0] in " +") else 0) + k)
    ctx.fidelity_check("formatting model agrees with CPython on boundary values", ok)

    def guarded(name, fn, fmt):
        """code that cannot be executed on symbolic values (e.g. a cast to a machine float type) is not a harness failure:
        the section is inconclusive and the round trip is decided on boundary values of the format on the real code"""
        def run_(c):
            try:
                fn(c)
            except symx.SymUnsupported as e:
                c.mark_inconclusive(name, "not executable symbolically (%s): decided on boundary values instead" % e)
                vals = [0.0, -0.00005, 0.12345, -1.5, 12.3456, -123.4567, 1234.5678, -8123.0666, 9999.9999, -9999.9999]
                pos = [[vals[i], vals[(i + 3) % len(vals)], vals[(i + 7) % len(vals)]] for i in range(len(vals))]
                data = {"Z": [6, 8, 17, 1, 7, 9, 16, 15, 35, 53], "pos": pos}
                rep = replay_sdf if fmt == "sdf" else replay_xyz
                r, det = rep(data)
                c.record("%s: boundary values of the format round trip on the real code (fallback)" % name, "counterexample" if r else "holds", nontrivial=True, method="ground instances")
                if r:
                    c.violation("%s:boundary" % fmt, "%s round trip fails on boundary values: %s" % (fmt.upper(), det[0]), data, rep)
        return run_
    def files(c):
        """the file route of both formats on the real code: a path is written, read, written again with another molecule and read
        again (ground instances; the symbolic sections go through strings)"""
        data = {"Z": [6, 8, 17, 1], "pos": [[0.0, -0.00005, 0.12345], [-1.5, 12.3456, -123.4567], [1234.5678, -8123.0666, 0.5], [2.25, 3.5, -4.75]]}
        for fmt, rep in (("sdf", replay_sdf), ("xyz", replay_xyz)):
            r, det = rep(dict(data, _single=True))
            c.record("%s: file written, read, rewritten with another molecule and read again; suffix in lower, upper and mixed case (real code)" % fmt, "counterexample" if r else "holds", nontrivial=True, method="ground instances")
            if r:
                c.violation("%s:file" % fmt, "%s file route: %s" % (fmt.upper(), det[0]), dict(data, _single=True), rep)
    secs = [("files", files), ("sdf-atom-line", guarded("sdf-atom-line", sdf_atom_lines, "sdf")), ("sdf-counts-bonds", guarded("sdf-counts-bonds", sdf_counts_bonds, "sdf")),
            ("sdf-records", guarded("sdf-records", sdf_records, "sdf")),
            ("xyz", guarded("xyz", lambda c: xyz_part(c, False), "xyz")), ("xyz-respelled", guarded("xyz-respelled", lambda c: xyz_part(c, True), "xyz"))]
    ctx.parallel_sections(secs)


def _shim_sdf():
    return load_shimmed("chmpy.fmt.sdf", pre={"float": sym_float, "int": sym_int})


def _coords(n, tag="q"):
    return np.array([[Sym(z3.Real("%s%d_%d" % (tag, i, k))) for k in range(3)] for i in range(n)], dtype=object)


def sdf_atom_lines(ctx):
    """one atom: Molecule.to_sdf_string -> parse_sdf_contents -> Molecule.from_sdf_dict, all digit/sign classes"""
    from chmpy.core.molecule import Molecule
    from chmpy.core.element import Element
    ms = _shim_sdf()
    P = _coords(1)
    lo, hi = Fraction(-99999999, 10000), Fraction(999999999, 10000)
    ex = Explorer(assumptions=[z3.And(v.t >= lo, v.t <= hi) for v in P.flat], max_paths=5000)
    tm = TextModel(ex, max_int_digits=6)
    symtext.install(tm)
    mol = Molecule([Element[8]], P)

    def roundtrip():
        tm.reset()
        text = mol.to_sdf_string()
        recs = ms.parse_sdf_contents(text)
        m2 = Molecule.from_sdf_dict(recs[0])
        return text, len(recs), m2, dict(tm.reg)
    t0 = time.time()
    paths = ex.run(roundtrip)
    ctx.add_paths(ex)
    symtext.install(None)
    nbad = 0
    checked = 0
    for p in paths:
        feas, mdl = _model(ex, p.pc)
        if not feas:
            continue
        checked += 1
        why = None
        if p.exc is not None:
            why = "%s: %s" % (type(p.exc).__name__, p.exc)
        else:
            text, nrec, m2, reg = p.value
            vals = list(reg.values())
            if nrec != 1 or len(m2.elements) != 1 or m2.elements[0].atomic_number != 8:
                why = "record/element structure changed"
            else:
                pos = np.asarray(m2.positions, dtype=object)
                for k in range(3):
                    want = [r for (r, x, spec) in vals if x is P[0, k]]
                    got = pos[0, k]
                    if not (isinstance(got, Sym) and any(got is r for r in want)):
                        why = "coordinate %s read back is not the written %s" % ("xyz"[k], "xyz"[k])
                        break
                lines = text.splitlines()
                if why is None and not (len(lines[4]) >= 34 and lines[4][30] == " " and lines[4][31:34].strip() == "O" and lines[3][34:39] == "V2000"):
                    why = "atom/counts line not in V2000 columns"
        if why is not None:
            nbad += 1
            data = {"Z": [8], "pos": [[float(model_value(mdl, P[0, k].t)) for k in range(3)]]}
            ctx.violation("sdf:atom-line", "SDF atom line does not read back (%s)" % why, data, replay_sdf)
            break
    ctx.record("sdf: 1-atom round trip on %d feasible sign/digit classes of (x,y,z): each coordinate read from its own whole field, V2000 columns" % checked,
               "holds" if nbad == 0 else "counterexample", seconds=time.time() - t0, nontrivial=True)
    # precision of the printed value (the model's rounding lemma instantiated): |r - x| <= 0.5e-4
    ctx.note("parsed value r of a field written from x satisfies |r-x| <= 0.5e-4 by the formatting model (validated against CPython)")


def _model(ex, pc):
    r, s = ex.check(pc, timeout_ms=10000)
    return (r == "sat"), (s.model() if r == "sat" else None)


def sdf_counts_bonds(ctx):
    ms = _shim_sdf()
    na, nb = Sym(z3.Int("natoms")), Sym(z3.Int("nbonds"))
    ex = Explorer(assumptions=[na.t >= 0, na.t <= 999, nb.t >= 0, nb.t <= 999])
    tm = TextModel(ex, max_int_digits=4)
    symtext.install(tm)

    def counts():
        tm.reset()
        line = ms.to_counts_line(atoms=na, bonds=nb)
        return line, ms.parse_counts_line(line), dict(tm.reg)
    paths = ex.run(counts)
    ctx.add_paths(ex)
    bad = None
    n = 0
    for p in paths:
        feas, mdl = _model(ex, p.pc)
        if not feas:
            continue
        n += 1
        if p.exc is not None:
            bad = (mdl, "counts line: %s" % p.exc)
            break
        line, c, reg = p.value
        if not (c["atoms"] is na and c["bonds"] is nb and c["version"] == "V2000" and len(line) == 39):
            bad = (mdl, "counts line fields are not read from their V2000 columns")
            break
    ctx.record("sdf: counts line for all atom/bond counts 0..999 (%d digit classes)" % n, "holds" if bad is None else "counterexample", nontrivial=True)
    if bad is not None:
        N = max(1, mdl.eval(na.t, model_completion=True).as_long())
        rng = np.random.default_rng(0)
        pos = (rng.random((N, 3)) * 40).round(3)
        ctx.violation("sdf:counts", bad[1] + " (atoms=%d)" % N, {"Z": [6] * N, "pos": pos.tolist()}, replay_sdf)
    # bond lines
    l, r_ = Sym(z3.Int("left")), Sym(z3.Int("right"))
    ex = Explorer(assumptions=[l.t >= 1, l.t <= 999, r_.t >= 1, r_.t <= 999])
    tm = TextModel(ex, max_int_digits=4)
    symtext.install(tm)

    def bond():
        tm.reset()
        line = ms.to_bond_line(left=l, right=r_, type=1)
        return line, ms.parse_bond_lines([line])
    paths = ex.run(bond)
    ctx.add_paths(ex)
    symtext.install(None)
    bad = None
    n = 0
    for p in paths:
        feas, mdl = _model(ex, p.pc)
        if not feas:
            continue
        n += 1
        if p.exc is not None:
            bad = (mdl, "bond line: %s" % p.exc)
            break
        line, b = p.value
        if not (b["left"][0] is l and b["right"][0] is r_ and b["type"][0] == 1 and len(line) == 21):
            bad = (mdl, "bond line fields are not read from their V2000 columns")
            break
    ctx.record("sdf: bond line for all atom indices 1..999 (%d digit classes)" % n, "holds" if bad is None else "counterexample", nontrivial=True)
    if bad is not None:
        N = max(mdl.eval(l.t, model_completion=True).as_long(), mdl.eval(r_.t, model_completion=True).as_long(), 2)
        pos = np.zeros((N, 3))
        pos[:, 0] = np.arange(N) * 1.3
        ctx.violation("sdf:bonds", bad[1] + " (a chain of %d bonded carbon atoms)" % N, {"Z": [6] * N, "pos": pos.tolist(), "bonds": True}, replay_sdf)


def sdf_records(ctx):
    """several records, with and without a bond block, split on $$$$: one molecule per record, in order"""
    from chmpy.core.molecule import Molecule
    from chmpy.core.element import Element
    from scipy.sparse import dok_matrix
    ms = _shim_sdf()
    for nrec, with_bonds in ((1, True), (2, False), (3, True)):
        Ps = [_coords(2, "m%d_" % i) for i in range(nrec)]
        box = [z3.And(v.t >= 1, v.t < 9) for P in Ps for v in P.flat]   # one digit/sign class: structure is the subject here
        ex = Explorer(assumptions=box)
        tm = TextModel(ex, max_int_digits=2)
        symtext.install(tm)
        mols = []
        for i, P in enumerate(Ps):
            m = Molecule([Element[6 + i], Element[1]], P)
            if with_bonds:
                m.bonds = dok_matrix(np.array([[0, 1.0], [1.0, 0]]))
                m.guess_bonds = lambda *a, **k: None   # bonds already assigned; perception is numeric and out of scope
            mols.append(m)

        def run_():
            tm.reset()
            texts = [m.to_sdf_string() for m in mols]
            if nrec == 1:
                whole = texts[0]
            else:
                # the file a user makes of several molecules: the records as written, one after the other (each record is a run of
                # complete lines ending with its '$$$$' line)
                whole = "".join(texts)
            recs = ms.parse_sdf_contents(whole)
            return [Molecule.from_sdf_dict(r) for r in recs], dict(tm.reg), recs
        paths = ex.run(run_)
        ctx.add_paths(ex)
        symtext.install(None)
        why = None
        for p in paths:
            feas, mdl = _model(ex, p.pc)
            if not feas:
                continue
            if p.exc is not None:
                why = "%s: %s" % (type(p.exc).__name__, p.exc)
                break
            got, reg, recs = p.value
            if len(got) != nrec:
                why = "%d molecules read from %d records" % (len(got), nrec)
                break
            for i, (m2, P) in enumerate(zip(got, Ps)):
                if [e.atomic_number for e in m2.elements] != [6 + i, 1]:
                    why = "record %d elements/order changed" % i
                    break
                pos = np.asarray(m2.positions, dtype=object)
                for a in range(2):
                    for k in range(3):
                        want = [r for (r, x, spec) in reg.values() if x is P[a, k]]
                        if not any(pos[a, k] is r for r in want):
                            why = "record %d atom %d coordinate %d not read from its field" % (i, a, k)
                if with_bonds and not (len(recs[i]["bonds"].get("left", [])) == 2 or len(recs[i]["bonds"].get("left", [])) == 1):
                    why = "record %d bond block not read" % i
            if any(k.startswith("M  EN") or "M  END" in str(v) for r in recs for k, v in r["data"].items()):
                why = "the terminator 'M  END' is read as a data item"
            if why:
                break
        ctx.record("sdf: %d record(s) %s bonds: one molecule per record, in order, fields aligned" % (nrec, "with" if with_bonds else "without"),
                   "holds" if why is None else "counterexample", nontrivial=True)
        if why is not None:
            rng = np.random.default_rng(1)
            recs_data = [{"Z": [6 + i, 1], "pos": [[1.5 + i, 2.5, 3.5], [2.45 + i, 2.5, 3.5]]} for i in range(nrec)]
            if nrec == 1:
                d = dict(recs_data[0])
                d["bonds"] = with_bonds
                ctx.violation("sdf:record:%s" % ("bonds" if with_bonds else "nobonds"), "single SDF record %s bonds does not read back (%s)" % ("with" if with_bonds else "without", why), d, replay_sdf)
            else:
                ctx.violation("sdfmulti:records", "multi-record SDF does not read back (%s)" % why, {"records": recs_data}, replay_sdf_multi)


def xyz_part(ctx, resp_only):
    from chmpy.core.molecule import Molecule
    from chmpy.core.element import Element
    mx = load_shimmed("chmpy.fmt.xyz_file", pre={"float": sym_float, "int": sym_int})
    P = _coords(1)
    nd = 6
    lim = 10 ** nd
    if ctx.tier == "thorough":
        boxes = [[z3.And(v.t > -lim, v.t < lim) for v in P.flat]]
    else:
        # quick: one coordinate over the whole range, the other two in one digit class (adjacent fields interact only
        # through the leading padding of the later one); thorough: all classes jointly
        boxes = [[z3.And(P[0, k].t > -lim, P[0, k].t < lim) if k == a else z3.And(P[0, k].t >= 1, P[0, k].t < 9) for k in range(3)] for a in range(3)]
        boxes.append([z3.And(v.t > -lim, v.t <= -lim // 10) for v in P.flat])
    ex = Explorer(max_paths=5000)
    tm = TextModel(ex, max_int_digits=nd + 1)
    symtext.install(tm)
    mol = Molecule([Element[17]], P)
    respell = [False]

    def rt():
        tm.reset()
        text = mol.to_xyz_string()
        if respell[0]:
            lines = text.splitlines()
            out = lines[:2]
            for ln in lines[2:]:
                t = ln.split()
                out.append("   " + t[0].upper() + "\t " + "    ".join(t[1:]) + "  ")
            text = "\n".join(out)
        els, pos = mx.parse_xyz_string(text)
        return els, pos, dict(tm.reg)
    # the comment line is free text: default (formula), empty, blank, number-like, shaped like an atom line
    comments = [None, "", "   ", "7", "Cl 1.0 2.0 3.0"]
    for comment in comments:
        resp = resp_only
        respell[0] = resp
        mol.properties.pop("comment", None)
        if comment is not None:
            mol.properties["comment"] = comment
        t0 = time.time()
        paths = []
        for box in (boxes if comment is None else boxes[:1]):
            ex.base = box
            paths += [(p, comment) for p in ex.run(rt)]
        ctx.add_paths(ex)
        why = None
        n = 0
        for p, comment in paths:
            feas, mdl = _model(ex, p.pc)
            if not feas:
                continue
            n += 1
            if p.exc is not None:
                why = "%s: %s" % (type(p.exc).__name__, p.exc)
            else:
                els, pos, reg = p.value
                pos = np.asarray(pos, dtype=object)
                if len(els) != 1 or els[0].atomic_number != 17:
                    why = "element changed"
                else:
                    for k in range(3):
                        want = [r for (r, x, spec) in reg.values() if x is P[0, k]]
                        if not any(pos[0, k] is r for r in want):
                            why = "coordinate %d not read from its field" % k
            if why:
                data = {"Z": [17], "pos": [[float(model_value(mdl, P[0, k].t)) for k in range(3)]], "respell": resp, "comment": comment}
                ctx.violation("xyz:%s" % ("respell" if resp else "roundtrip"), "XYZ does not read back (%s)%s" % (why, "" if comment is None else " with comment line %r" % comment), data, replay_xyz)
                break
        ctx.record("xyz: 1-atom round trip%s%s on %d sign/digit classes, |x| < 10^%d" % (" with upper-case symbol, tabs and blank runs" if resp else "", "" if comment is None else ", comment line %r" % comment, n, nd),
                   "holds" if why is None else "counterexample", seconds=time.time() - t0, nontrivial=True)
    symtext.install(None)
