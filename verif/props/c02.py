"""C02  Every tabulated space-group setting is a closed, consistently identified group.

The domain is the finite table (530 settings): verdicts are ground instances computed by the
real SpaceGroup/SymmetryOperation code (equivalent to complete enumeration -- DESIGN C02).
What is symbolic: 'same operation' is decided as equality of *actions* on a symbolic point
modulo Z^3 (LRA + IsInt) for compositions, inverses and the reduce->expand round trip."""
import time

import numpy as np
import z3

from ..symx import Sym, model_value


def settings():
    from chmpy.crystal.space_group import SG_FROM_NUMBER
    out = []
    for k, v in SG_FROM_NUMBER.items():
        for sg in v:
            out.append((int(sg.number), sg.choice))
    return sorted(out)


def _affine(op):
    """(R, t) of the action of a real SymmetryOperation, read off by applying it to the origin and basis points."""
    pts = np.vstack([np.zeros(3), np.eye(3)])
    img = op.apply(pts)
    t = img[0]
    R = (img[1:] - t).T
    return np.round(R).astype(int), t


def _key(R, t):
    return (tuple(R.ravel().tolist()), tuple(int(v) for v in np.round((t % 1) * 12).astype(int) % 12))


def _lookup_from_table(number, choice, why):
    import json
    import os
    import chmpy.crystal.space_group as sgmod
    from chmpy.crystal.space_group import SpaceGroup
    from chmpy.crystal.symmetry_operation import SymmetryOperation
    table = json.load(open(os.path.join(os.path.dirname(sgmod.__file__), "sgdata.json")))
    rows = [r for r in table[str(number)] if str(r[6]) == str(choice)]
    if len(rows) != 1:
        return ["%s and the setting is tabulated %d times" % (why, len(rows))]
    codes = [int(c) for c in rows[0][8]]
    try:
        g = SpaceGroup.from_symmetry_operations([SymmetryOperation.from_integer_code(c) for c in codes])
        if int(g.international_tables_number) != int(number) or {int(o.integer_code) for o in g.symmetry_operations} != set(codes):
            return ["%s; lookup from the tabulated operation list of %d:%s gives %s:%s" % (why, number, choice, g.international_tables_number, g.choice)]
    except Exception as e:
        return ["%s; lookup from the tabulated operation list of %d:%s raises %s" % (why, number, choice, type(e).__name__)]
    return []


def check_setting(number, choice):
    """Ground oracle on the real code.  Returns list of failure strings."""
    from chmpy.crystal.space_group import SpaceGroup
    from chmpy.crystal.symmetry_operation import SymmetryOperation
    bad = []
    try:
        sg = SpaceGroup(number, choice)
    except Exception as e:
        # the tabulated setting cannot be constructed: the group it describes is then looked up from the operation list
        # written out in the table (no SpaceGroup object needed to state the list) -- the lookup clause still applies to it
        return _lookup_from_table(number, choice, "SpaceGroup(%d, %r) raises %s" % (number, choice, type(e).__name__))
    ops = sg.symmetry_operations
    codes = [int(o.integer_code) for o in ops]
    # the object is the requested setting: number, choice and the operation codes tabulated for exactly this (number, choice)
    import json
    import os
    import chmpy.crystal.space_group as sgmod
    table = json.load(open(os.path.join(os.path.dirname(sgmod.__file__), "sgdata.json")))
    rows = [r for r in table[str(number)] if str(r[6]) == str(choice)]
    if int(sg.international_tables_number) != int(number) or str(sg.choice) != str(choice):
        bad.append("SpaceGroup(%d, %r) is setting %s:%s" % (number, choice, sg.international_tables_number, sg.choice))
    if len(rows) != 1:
        bad.append("setting %d:%s tabulated %d times" % (number, choice, len(rows)))
    elif sorted(codes) != sorted(int(c) for c in rows[0][8]):
        bad.append("SpaceGroup(%d, %r) does not carry the operations tabulated for this setting" % (number, choice))
    if len(set(codes)) != len(codes):
        bad.append("duplicate operations")
    if 16484 not in codes:
        bad.append("identity missing")
    aff = [_affine(o) for o in ops]
    keys = {_key(R, t) for R, t in aff}
    if len(keys) != len(ops):
        bad.append("two operations act identically modulo the lattice")
    for R, t in aff:
        if abs(abs(round(np.linalg.det(R))) - 1) > 0:
            bad.append("operation with non-unimodular rotation part")
            break
    closed = inv = True
    for Ra, ta in aff:
        Ri = np.round(np.linalg.inv(Ra)).astype(int)
        if _key(Ri, -Ri @ ta) not in keys:
            inv = False
        for Rb, tb in aff:
            if _key(Ra @ Rb, Ra @ tb + ta) not in keys:
                closed = False
                break
    if not closed:
        bad.append("not closed under composition")
    if not inv:
        bad.append("not closed under inversion")
    has_inv = any((R == -np.eye(3, dtype=int)).all() for R, t in aff)
    if bool(sg.centrosymmetric) != has_inv:
        bad.append("centrosymmetric flag %s but %s operation with rotation -1" % (sg.centrosymmetric, "an" if has_inv else "no"))
    # lookup from the full list
    try:
        g2 = SpaceGroup.from_symmetry_operations(list(ops))
        if g2.international_tables_number != number or {int(o.integer_code) for o in g2.symmetry_operations} != set(codes):
            bad.append("lookup by full operation list gives %s:%s" % (g2.international_tables_number, g2.choice))
    except Exception as e:
        bad.append("lookup by full operation list raises %s" % type(e).__name__)
    # lookup from the reduced (LATT + SYMM) description
    try:
        red = sg.reduced_symmetry_operations()
        latt = sg.latt
        g3 = SpaceGroup.from_symmetry_operations(list(red), expand_latt=latt)
        if g3.international_tables_number != number or {int(o.integer_code) for o in g3.symmetry_operations} != set(codes):
            bad.append("LATT %d + %d SYMM operations expand to %s:%s" % (latt, len(red), g3.international_tables_number, g3.choice))
    except Exception as e:
        bad.append("lookup by reduced description (LATT %s) raises %s" % (getattr(sg, "latt", "?"), type(e).__name__))
    return bad


def replay_setting(data):
    bad = check_setting(int(data["number"]), data["choice"])
    return bool(bad), bad


REPLAY = {"sg": replay_setting}


def run(ctx):
    from chmpy.crystal import space_group as sgm, symmetry_operation as som
    from chmpy.crystal.space_group import SpaceGroup
    ctx.encode(SpaceGroup.__init__, SpaceGroup.latt.fget, SpaceGroup.reduced_symmetry_operations, SpaceGroup.from_symmetry_operations.__func__,
               som.reduced_symmetry_list, som.expanded_symmetry_list, som.SymmetryOperation.inverted, som.SymmetryOperation.__add__,
               som.SymmetryOperation.__eq__, som.SymmetryOperation.apply)
    ctx.encode_file("/repo/src/chmpy/crystal/sgdata.json", "sgdata.json")
    allset = settings()
    ctx.bound("all %d (number, choice) settings of the bundled table; symbolic action-equality queries on %s" %
              (len(allset), "every setting" if ctx.tier == "thorough" else "every setting (one composition, one inverse, the reduce->expand image per setting)"))
    ctx.note("finite table: the ground verdicts are equivalent to complete enumeration; the solver adds equality of actions on a symbolic point")
    ctx.out_of_scope("settings not in the bundled table")
    t0 = time.time()
    bad_settings = {}
    for number, choice in allset:
        b = check_setting(number, choice)
        if b:
            bad_settings[(number, choice)] = b
    ctx.record("table: %d settings -- identity, uniqueness, closure, inverses, centrosymmetric flag, lookup by full list and by LATT+SYMM (ground, real code)" % len(allset),
               "holds" if not bad_settings else "counterexample", seconds=time.time() - t0, nontrivial=True, method="ground instances / enumeration",
               sample={"setting": [14, "b1"] if (14, "b1") in allset else list(allset[0])})
    for (number, choice), b in sorted(bad_settings.items()):
        kind = "latt" if all(("LATT" in x or "reduced" in x) for x in b) else "group"
        ctx.violation("sg:%s:%d:%s" % (kind, number, choice), "setting %d:%s: %s" % (number, choice, "; ".join(b)),
                      {"number": number, "choice": choice}, replay_setting)

    # ---- symbolic action equality: the group element matched on the ground is shown to have the same action on a
    # symbolic point modulo Z^3 for all x (affine in x: z3 eliminates the quantifier); built in the workers
    x = np.array([[Sym(z3.Real("x%d" % k)) for k in range(3)]], dtype=object)
    xs = [x[0, k].t for k in range(3)]
    tasks, meta = [], []

    def same_action(img, c):
        d = img - c.apply(x)
        return z3.And([z3.IsInt(d[0, k].t) for k in range(3)])

    def builder(number, choice, seed):
        def build():
            rng = np.random.default_rng(seed)
            sg = SpaceGroup(number, choice)
            ops = sg.symmetry_operations
            bykey = {_key(*_affine(o)): o for o in ops}
            n = len(ops)
            npairs = 2 if ctx.tier == "quick" else 12
            goals = []
            unmatched = 0
            for _ in range(npairs):
                a, b = ops[int(rng.integers(n))], ops[int(rng.integers(n))]
                (Ra, ta), (Rb, tb) = _affine(a), _affine(b)
                c = bykey.get(_key(Ra @ Rb, Ra @ tb + ta))
                Ri = np.round(np.linalg.inv(Ra)).astype(int)
                ci = bykey.get(_key(Ri, -Ri @ ta))
                if c is None or ci is None:
                    unmatched += 1
                    continue
                goals.append(same_action(a.apply(b.apply(x)), c))
                goals.append(z3.And([z3.IsInt((ci.apply(a.apply(x)) - x)[0, k].t) for k in range(3)]))
            try:
                red = sg.reduced_symmetry_operations()
                exp = som.expanded_symmetry_list(list(red), sg.latt)
                if len(exp) != n:
                    unmatched += 1
                matched = []
                for e in exp:
                    c = bykey.get(_key(*_affine(e)))
                    if c is None:
                        unmatched += 1
                    else:
                        matched.append((e, c))
                if ctx.tier == "quick" and len(matched) > 6:
                    idx = rng.choice(len(matched), 6, replace=False)
                    matched = [matched[i] for i in idx]
                for e, c in matched:
                    goals.append(same_action(e.apply(x), c))
            except Exception:
                unmatched += 1
            goal = z3.And(z3.BoolVal(unmatched == 0), z3.ForAll(xs, z3.And(goals)) if goals else z3.BoolVal(True))
            return dict(assumptions=[], goal=goal)
        return build

    for i, (number, choice) in enumerate(allset):
        tasks.append(dict(name="action: setting %d:%s: sampled compositions/inverses and reduce->expand images act as the matched group element on a symbolic point mod Z^3"
                          % (number, choice), build=builder(number, choice, ctx.seed * 1000 + i), vacuity=False, timeout=60, extract=lambda m: {}))
        meta.append((number, choice))
    res = ctx.query_many(tasks)
    for (number, choice), r in zip(meta, res):
        if r.verdict == "cex" and (number, choice) not in bad_settings:
            ctx.violation("sg:action:%d:%s" % (number, choice), "setting %d:%s: an image does not act as any group element" % (number, choice),
                          {"number": number, "choice": choice}, replay_setting)
