"""C14  Derived crystal data always reflect the crystal's current state (histories).

A transition system is extracted from the AST of crystal.py on every run (which methods
read/create which hasattr-guarded caches, which assign the cell / space group / asymmetric
unit, which drop caches); z3 searches operation sequences (bounded) and the one-step
inductive invariant for a query answered from a cache older than the state.  Counterexample
histories are replayed on real crystals against freshly constructed ones."""
import ast
import copy
import itertools
import time

import numpy as np
import z3

CRYSTAL_PY = "/repo/src/chmpy/crystal/crystal.py"
STATE_FIELDS = ("unit_cell", "space_group", "asymmetric_unit")


# ------------------------------------------------------------------------------ extraction
class MethodInfo:
    def __init__(self, name):
        self.name = name
        self.cache_reads, self.cache_writes, self.cache_drops = set(), set(), set()
        self.state_writes = set()
        self.calls = set()
        self.reads_cif, self.drops_cif, self.refreshes_cif = False, False, set()
        self.cond = {}          # parameter name -> {"drops": set(), "drops_cif": bool}   (effects under `if <param>:`)
        self.call_kwargs = {}   # callee -> set of keyword names passed as True
        self.cif_refresh_asym = False


def _is_self(n):
    return isinstance(n, ast.Name) and n.id == "self"


def _attr_chain(n):
    out = []
    while isinstance(n, ast.Attribute):
        out.append(n.attr)
        n = n.value
    if _is_self(n):
        return list(reversed(out))
    return None


def extract(path=CRYSTAL_PY):
    tree = ast.parse(open(path).read())
    cls = next(n for n in tree.body if isinstance(n, ast.ClassDef) and n.name == "Crystal")
    methods = {}
    for fn in cls.body:
        if not isinstance(fn, ast.FunctionDef):
            continue
        mi = MethodInfo(fn.name)
        loopvals = {}
        for n in ast.walk(fn):
            if isinstance(n, ast.For) and isinstance(n.target, ast.Name) and isinstance(n.iter, (ast.Tuple, ast.List)) \
                    and all(isinstance(e, ast.Constant) for e in n.iter.elts):
                loopvals[n.target.id] = [e.value for e in n.iter.elts]
        params = {a.arg for a in fn.args.args}
        guarded = {}   # id(node) -> param for nodes inside `if <param>:`
        for n in ast.walk(fn):
            if isinstance(n, ast.If) and isinstance(n.test, ast.Name) and n.test.id in params:
                for b in n.body:
                    for sub in ast.walk(b):
                        guarded[id(sub)] = n.test.id
        # X = self.properties["cif_data"]; X["atom_site_fract_*"] = ...  -> the stored dictionary's coordinates are refreshed
        aliases = set()
        for n in ast.walk(fn):
            if isinstance(n, ast.Assign) and isinstance(n.value, ast.Subscript) and _attr_chain(n.value.value) == ["properties"] \
                    and isinstance(n.value.slice, ast.Constant) and n.value.slice.value == "cif_data":
                aliases |= {t.id for t in n.targets if isinstance(t, ast.Name)}
        for n in ast.walk(fn):
            if isinstance(n, ast.Assign):
                for t in n.targets:
                    if isinstance(t, ast.Subscript) and isinstance(t.value, ast.Name) and t.value.id in aliases and isinstance(t.slice, ast.Constant) \
                            and str(t.slice.value).startswith("atom_site_fract"):
                        mi.cif_refresh_asym = True
        for n in ast.walk(fn):
            if isinstance(n, ast.Call):
                f = n.func
                if isinstance(f, ast.Name) and f.id == "delattr" and len(n.args) > 1 and _is_self(n.args[0]) and isinstance(n.args[1], ast.Name):
                    g = guarded.get(id(n))
                    for v in loopvals.get(n.args[1].id, []):
                        if str(v).startswith("_"):
                            (mi.cond.setdefault(g, {"drops": set(), "drops_cif": False})["drops"] if g else mi.cache_drops).add(v)
                if isinstance(f, ast.Name) and f.id in ("hasattr", "getattr", "setattr", "delattr") and n.args and _is_self(n.args[0]) \
                        and len(n.args) > 1 and isinstance(n.args[1], ast.Constant) and isinstance(n.args[1].value, str):
                    attr = n.args[1].value
                    if attr.startswith("_"):
                        {"hasattr": mi.cache_reads, "getattr": mi.cache_reads, "setattr": mi.cache_writes, "delattr": mi.cache_drops}[f.id].add(attr)
                    elif f.id == "setattr" and attr in STATE_FIELDS:
                        mi.state_writes.add(attr)
                ch = _attr_chain(f) if isinstance(f, ast.Attribute) else None
                if ch and len(ch) == 1:
                    mi.calls.add(ch[0])
                    kws = {k.arg for k in n.keywords if isinstance(k.value, ast.Constant) and k.value.value is True}
                    mi.call_kwargs.setdefault(ch[0], set()).update(kws)
                # self.__dict__.pop("_x", ...)   /  self.properties.pop("cif_data", ...)   (argument: constant or a loop variable over constants)
                if ch and len(ch) == 2 and ch[1] == "pop" and n.args:
                    a0 = n.args[0]
                    vals = [a0.value] if isinstance(a0, ast.Constant) else loopvals.get(a0.id, []) if isinstance(a0, ast.Name) else []
                    g = guarded.get(id(n))
                    tgt = mi.cond.setdefault(g, {"drops": set(), "drops_cif": False}) if g else None
                    for v in vals:
                        if ch[0] == "__dict__" and str(v).startswith("_"):
                            (tgt["drops"] if g else mi.cache_drops).add(v)
                        if ch[0] == "properties" and v == "cif_data":
                            if g:
                                tgt["drops_cif"] = True
                            else:
                                mi.drops_cif = True
            if isinstance(n, (ast.Assign, ast.AugAssign, ast.AnnAssign, ast.Delete)):
                targets = n.targets if isinstance(n, (ast.Assign, ast.Delete)) else [n.target]
                for t in targets:
                    for tt in (t.elts if isinstance(t, ast.Tuple) else [t]):
                        base = tt
                        while isinstance(base, ast.Subscript):
                            base = base.value
                        ch = _attr_chain(base)
                        if not ch:
                            continue
                        if isinstance(n, ast.Delete):
                            if ch[0].startswith("_"):
                                mi.cache_drops.add(ch[0])
                            if ch[0] == "properties" and isinstance(tt, ast.Subscript) and isinstance(tt.slice, ast.Constant) and tt.slice.value == "cif_data":
                                g = guarded.get(id(n))
                                if g:
                                    mi.cond.setdefault(g, {"drops": set(), "drops_cif": False})["drops_cif"] = True
                                else:
                                    mi.drops_cif = True
                            continue
                        if ch[0] in STATE_FIELDS:
                            mi.state_writes.add(ch[0])
                        elif ch[0].startswith("_") and len(ch) == 1:
                            mi.cache_writes.add(ch[0])
                        elif ch[0] == "properties" and isinstance(tt, ast.Subscript) and isinstance(tt.slice, ast.Constant) and tt.slice.value == "cif_data":
                            mi.refreshes_cif.add("*")
            if isinstance(n, ast.Subscript):
                ch = _attr_chain(n.value)
                if ch == ["properties"] and isinstance(n.slice, ast.Constant) and n.slice.value == "cif_data" and isinstance(n.ctx, ast.Load):
                    mi.reads_cif = True
        mi.cache_reads -= {"_have_warned_powder"}
        mi.cache_writes -= {"_have_warned_powder"}
        methods[fn.name] = mi
    return methods


MUTATING_CALLS = ("sort", "reverse", "append", "extend", "insert", "pop", "remove", "clear", "update", "fill", "resize", "setdefault", "popitem")


def extract_taints(methods, path=CRYSTAL_PY):
    """In-place modification of another query's memoised answer: a local name bound to `self.<producer>()` /
    `getattr(self, "_cache")` (or to an item / attribute of such a name) on which a mutating method is called, or which
    is the base of an item assignment, augmented assignment or del.  (Annotation of the *elements* of a memoised list
    through their own attributes, e.g. mol.properties[...] = ..., is not counted: see DESIGN C14.)"""
    producer = {}
    for m in methods.values():
        for c in m.cache_writes & m.cache_reads:
            producer[m.name] = c
    tree = ast.parse(open(path).read())
    cls = next(n for n in tree.body if isinstance(n, ast.ClassDef) and n.name == "Crystal")
    for fn in cls.body:
        if not isinstance(fn, ast.FunctionDef) or fn.name not in methods:
            continue
        mi = methods[fn.name]
        mi.cache_taints = set()
        alias = {}       # local name -> cache

        def source_cache(v):
            if isinstance(v, ast.Call):
                f = v.func
                if isinstance(f, ast.Attribute) and _is_self(f.value) and f.attr in producer and f.attr != fn.name:
                    return producer[f.attr]
                if isinstance(f, ast.Name) and f.id == "getattr" and len(v.args) > 1 and _is_self(v.args[0]) and isinstance(v.args[1], ast.Constant) \
                        and str(v.args[1].value).startswith("_") and producer.get(fn.name) != v.args[1].value:
                    return v.args[1].value
            base = v
            while isinstance(base, (ast.Subscript, ast.Attribute)):
                base = base.value
                if isinstance(base, ast.Name) and base.id in alias:
                    return alias[base.id]
            if isinstance(v, ast.Name) and v.id in alias:
                return alias[v.id]
            return None
        for _ in range(3):   # propagate through chains of assignments
            for n in ast.walk(fn):
                if isinstance(n, ast.Assign) and len(n.targets) == 1:
                    tg = n.targets[0]
                    if isinstance(tg, ast.Name):
                        c = source_cache(n.value)
                        if c:
                            alias[tg.id] = c
                    elif isinstance(tg, ast.Tuple) and isinstance(n.value, ast.Call):
                        c = source_cache(n.value)
                        if c:
                            for e in tg.elts:
                                if isinstance(e, ast.Name):
                                    alias[e.id] = c
        for n in ast.walk(fn):
            if isinstance(n, ast.Call) and isinstance(n.func, ast.Attribute) and n.func.attr in MUTATING_CALLS:
                b = n.func.value
                c = source_cache(b) if not isinstance(b, ast.Name) else alias.get(b.id)
                if c is None and isinstance(b, ast.Call):
                    c = source_cache(b)
                if c:
                    mi.cache_taints.add(c)
            if isinstance(n, (ast.Assign, ast.AugAssign, ast.Delete)):
                targets = n.targets if isinstance(n, (ast.Assign, ast.Delete)) else [n.target]
                for t in targets:
                    for tt in (t.elts if isinstance(t, ast.Tuple) else [t]):
                        if isinstance(n, ast.AugAssign) and isinstance(tt, ast.Name) and tt.id in alias:
                            mi.cache_taints.add(alias[tt.id])
                        if isinstance(tt, ast.Subscript):
                            base = tt.value
                            while isinstance(base, ast.Subscript):
                                base = base.value
                            if isinstance(base, ast.Name) and base.id in alias:
                                mi.cache_taints.add(alias[base.id])
    return methods


def argument_blind_calls(methods, root="/repo/src/chmpy"):
    """Calls anywhere in the library that hand a literal, non-default argument to a memoising query whose memo does not depend on
    its arguments (all of Crystal's memos are attribute names fixed in the source): whichever call comes first then decides the
    answer of all later ones.  Returns [(file, line, method, argument text)]."""
    import os
    tree = ast.parse(open(CRYSTAL_PY).read())
    cls = next(n for n in tree.body if isinstance(n, ast.ClassDef) and n.name == "Crystal")
    defaults = {}
    for fn in cls.body:
        if isinstance(fn, ast.FunctionDef) and fn.name in methods and (methods[fn.name].cache_writes & methods[fn.name].cache_reads):
            names = [a.arg for a in fn.args.args][1:]
            dv = fn.args.defaults
            dmap = {}
            for nm, d in zip(names[len(names) - len(dv):], dv):
                if isinstance(d, ast.Constant):
                    dmap[nm] = d.value
            defaults[fn.name] = (names, dmap)
    out = []
    for dp, dn, fns in os.walk(root):
        if "tests" in dp.split(os.sep):
            continue
        for f in fns:
            if not f.endswith(".py"):
                continue
            path = os.path.join(dp, f)
            try:
                t = ast.parse(open(path).read())
            except SyntaxError:
                continue
            for n in ast.walk(t):
                if isinstance(n, ast.Call) and isinstance(n.func, ast.Attribute) and n.func.attr in defaults:
                    names, dmap = defaults[n.func.attr]
                    given = []
                    for i, a in enumerate(n.args):
                        if isinstance(a, ast.Constant) and i < len(names) and dmap.get(names[i], object()) != a.value:
                            given.append("%s=%r" % (names[i], a.value))
                    for k in n.keywords:
                        if k.arg is not None and isinstance(k.value, ast.Constant) and k.arg in dmap and dmap[k.arg] != k.value.value:
                            given.append("%s=%r" % (k.arg, k.value.value))
                    if given:
                        out.append((os.path.relpath(path, root), n.lineno, n.func.attr, ", ".join(given)))
    return out


def closure(methods, name, seen=None):
    seen = seen if seen is not None else set()
    if name in seen or name not in methods:
        return seen
    seen.add(name)
    for c in methods[name].calls:
        closure(methods, c, seen)
    return seen


# ------------------------------------------------------------------------------ model
def build_model(methods):
    caches = sorted({c for m in methods.values() for c in m.cache_writes if c.startswith("_")})
    producer = {}
    for c in caches:
        for m in methods.values():
            if c in m.cache_writes and c in m.cache_reads:
                producer[c] = m.name
    caches = [c for c in caches if c in producer]
    deps = {}
    for c in caches:
        used = set()
        for mm in closure(methods, producer[c]):
            used |= (methods[mm].cache_reads | methods[mm].cache_writes)
        deps[c] = sorted((used & set(caches)) - {c})
    mutators, queries = {}, {}
    for name, m in methods.items():
        if name.startswith("__") or name in ("from_cif_data",):
            continue
        cl = closure(methods, name)
        sw = set().union(*[methods[x].state_writes for x in cl])
        used = set().union(*[methods[x].cache_reads | methods[x].cache_writes for x in cl]) & set(caches)
        reads_cif = any(methods[x].reads_cif for x in cl)
        if sw:
            drops = set().union(*[methods[x].cache_drops for x in cl])
            drops_cif = any(methods[x].drops_cif for x in cl) or any("*" in methods[x].refreshes_cif for x in cl)
            for x in cl:   # effects guarded by `if <param>:` count when some caller in the closure passes param=True
                for callee, kws in methods[x].call_kwargs.items():
                    for kw in kws:
                        eff = methods.get(callee, MethodInfo(callee)).cond.get(kw)
                        if eff:
                            drops |= eff["drops"]
                            drops_cif = drops_cif or eff["drops_cif"]
            mutators[name] = dict(writes=sorted(sw), drops=sorted(drops & set(caches)), drops_cif=drops_cif, uses=sorted(used))
        elif used or reads_cif:
            taints = set().union(*[getattr(methods[x], "cache_taints", set()) for x in cl]) & set(caches)
            queries[name] = dict(uses=sorted(used), reads_cif=reads_cif, cif_refresh_asym=any(methods[x].cif_refresh_asym for x in cl), taints=sorted(taints))
    return caches, deps, mutators, queries


def search(caches, deps, mutators, queries, k, inductive=False, block=(), only=None):
    """z3 search for a history of length k ending in a stale answer.  Returns list of op names or None."""
    ops = sorted(queries) + sorted(mutators) + ["deepcopy"]
    nq, nm = len(queries), len(mutators)
    s = z3.Solver()
    s.set("timeout", 60000)
    op = [z3.Int("op%d" % i) for i in range(k)]
    ver = [z3.Int("ver%d" % i) for i in range(k + 1)]
    vcs = [z3.Int("vcs%d" % i) for i in range(k + 1)]   # version of (cell, space group) only
    pres = {c: [z3.Bool("pres_%s_%d" % (c, i)) for i in range(k + 1)] for c in caches + ["cif_data"]}
    stamp = {c: [z3.Int("stamp_%s_%d" % (c, i)) for i in range(k + 1)] for c in caches + ["cif_data"]}
    order = _topo(caches, deps)
    if inductive:
        # arbitrary start state satisfying the invariant: every present cache is current
        s.add(ver[0] >= 0, vcs[0] == ver[0])
        for c in caches + ["cif_data"]:
            s.add(z3.Implies(pres[c][0], stamp[c][0] == ver[0]))
    else:
        s.add(ver[0] == 0, vcs[0] == 0)
        for c in caches:
            s.add(z3.Not(pres[c][0]))
        s.add(stamp["cif_data"][0] == 0)   # present or not: loaded from a file or built in memory
    stale = []
    for i in range(k):
        s.add(op[i] >= 0, op[i] < len(ops))
        for j, name in enumerate(ops):
            here = op[i] == j
            if name in queries:
                q = queries[name]
                eff = {}
                for c in order:   # population in dependency order; a cache built from stale inputs inherits their age
                    if c in q["uses"] or any(c in deps[d] for d in q["uses"]):
                        new_stamp = ver[i]
                        for d in deps[c]:
                            ds = eff.get(d, (pres[d][i], stamp[d][i]))[1]
                            new_stamp = z3.If(ds < new_stamp, ds, new_stamp)
                        eff[c] = (z3.BoolVal(True), z3.If(pres[c][i], stamp[c][i], new_stamp))
                for c in caches + ["cif_data"]:
                    pn, sn = eff.get(c, (pres[c][i], stamp[c][i]))
                    if c in q.get("taints", ()):
                        sn = z3.IntVal(-1)      # modified in place by this query: no longer the answer computed from the state
                    s.add(z3.Implies(here, z3.And(pres[c][i + 1] == pn, stamp[c][i + 1] == sn)))
                s.add(z3.Implies(here, z3.And(ver[i + 1] == ver[i], vcs[i + 1] == vcs[i])))
                bad = [eff[c][1] < ver[i] for c in eff]
                if q["reads_cif"]:
                    # a stored CIF dictionary whose coordinates the query refreshes is stale only w.r.t. cell / space group
                    bad.append(z3.And(pres["cif_data"][i], stamp["cif_data"][i] < (vcs[i] if q.get("cif_refresh_asym") else ver[i])))
                stale.append(z3.And(here, z3.Or(bad)) if bad else z3.BoolVal(False))
            elif name in mutators:
                mu = mutators[name]
                s.add(z3.Implies(here, ver[i + 1] == ver[i] + 1))
                s.add(z3.Implies(here, vcs[i + 1] == (ver[i] + 1 if (set(mu["writes"]) & {"unit_cell", "space_group"}) else vcs[i])))
                for c in caches + ["cif_data"]:
                    dropped = (c in mu["drops"]) or (c == "cif_data" and mu["drops_cif"])
                    if dropped:
                        s.add(z3.Implies(here, z3.Not(pres[c][i + 1])))
                    else:
                        s.add(z3.Implies(here, z3.And(pres[c][i + 1] == pres[c][i], stamp[c][i + 1] == stamp[c][i])))
            else:  # deepcopy: the copy carries the same state and the same caches
                s.add(z3.Implies(here, z3.And(ver[i + 1] == ver[i], vcs[i + 1] == vcs[i])))
                for c in caches + ["cif_data"]:
                    s.add(z3.Implies(here, z3.And(pres[c][i + 1] == pres[c][i], stamp[c][i + 1] == stamp[c][i])))
    s.add(z3.Or(stale))
    if only is not None:     # histories made of operations the replay harness can execute
        for i in range(k):
            s.add(z3.Or([op[i] == j for j, name in enumerate(ops) if name in only]))
    for b in block:
        s.add(z3.Not(z3.And([op[i] == ops.index(nm_) for i, nm_ in enumerate(b) if i < k and nm_ in ops])))
    r = str(s.check())
    if r != "sat":
        return r, None, None
    mdl = s.model()
    seq = [ops[mdl.eval(op[i], model_completion=True).as_long()] for i in range(k)]
    # cut after the first stale step
    for i in range(k):
        if z3.is_true(mdl.eval(stale[i * len(ops) + ops.index(seq[i])] if False else z3.BoolVal(False))):
            pass
    cif_loaded = z3.is_true(mdl.eval(pres["cif_data"][0], model_completion=True))
    return r, seq, cif_loaded


def _topo(caches, deps):
    out, seen = [], set()

    def visit(c):
        if c in seen:
            return
        seen.add(c)
        for d in deps[c]:
            visit(d)
        out.append(c)
    for c in caches:
        visit(c)
    return out


# ------------------------------------------------------------------------------ replay on the real code
QUERY_ARGS = {"slab": {}, "atoms_in_radius": {"radius": 4.0}, "atomic_surroundings": {"radius": 3.5}, "molecule_environments": {"radius": 3.5},
              "unit_cell_atoms": {}, "unit_cell_connectivity": {}, "unit_cell_molecules": {}, "symmetry_unique_molecules": {}, "density": {},
              "to_cif_string": {}, "to_cif_data": {}, "to_shelx_string": {}, "molecular_shell": {"radius": 3.5}, "as_P1": {}, "to_poscar_string": {}}


def _fresh(c):
    from chmpy.crystal import Crystal, UnitCell, SpaceGroup, AsymmetricUnit
    uc = UnitCell(np.array(c.unit_cell.direct, float).copy())
    sg = SpaceGroup(c.space_group.international_tables_number, c.space_group.choice)
    kw = {}
    if "occupation" in c.asymmetric_unit.properties:
        kw["occupation"] = np.array(c.asymmetric_unit.properties["occupation"], float).copy()
    au = AsymmetricUnit(list(c.asymmetric_unit.elements), np.array(c.asymmetric_unit.positions, float).copy(), labels=np.array(c.asymmetric_unit.labels), **kw)
    return Crystal(uc, sg, au)


def _summ(x):
    """comparable summary of a query result"""
    from chmpy.core.molecule import Molecule
    if isinstance(x, dict):
        return {k: _summ(v) for k, v in sorted(x.items(), key=lambda kv: str(kv[0])) if k not in ("audit_creation_method",)}
    if isinstance(x, Molecule):
        return ("mol", np.round(np.asarray(x.positions, float), 5).tolist(), [int(n) for n in x.atomic_numbers])
    if isinstance(x, (list, tuple)):
        return [_summ(v) for v in x]
    if isinstance(x, np.ndarray):
        if x.dtype.kind in "fc":
            return np.round(x.astype(float), 5).tolist()
        return x.tolist()
    if isinstance(x, float):
        return round(x, 5)
    if hasattr(x, "todense"):
        return np.round(np.asarray(x.todense(), float), 5).tolist()
    if isinstance(x, str):
        return _cif_numbers(x)
    if hasattr(x, "unit_cell") and hasattr(x, "asymmetric_unit"):
        return _crystal_summary(x)
    try:
        import json
        json.dumps(x)
        return x
    except Exception:
        return repr(type(x))


def _crystal_summary(c):
    return {"cell": np.round(np.asarray(c.unit_cell.direct, float), 4).tolist(), "sg": [c.space_group.international_tables_number, c.space_group.choice],
            "ops": sorted(int(o.integer_code) for o in c.space_group.symmetry_operations),
            "pos": np.round(np.asarray(c.asymmetric_unit.positions, float), 5).tolist(),
            "els": [int(e.atomic_number) for e in c.asymmetric_unit.elements]}


def _reparse(name, out):
    """exported text/data is compared through what it describes: the crystal read back from it"""
    from chmpy.crystal import Crystal
    if name == "to_cif_string":
        return _crystal_summary(Crystal.from_cif_string(out))
    if name == "to_cif_data":
        return _crystal_summary(Crystal.from_cif_data(list(out.values())[0]))
    if name == "to_shelx_string":
        return _crystal_summary(Crystal.from_shelx_string(out))
    if name == "to_poscar_string":
        return _cif_numbers("\n".join(out.splitlines()[1:]))      # the first line is a free comment (title)
    return _summ(out)


def _cif_numbers(text):
    import re
    toks = []
    for ln in text.splitlines():
        if ln.startswith("_audit") or "chmpy" in ln or ln.startswith("TITL") or ln.startswith("data_"):
            continue
        for t in ln.split():
            try:
                toks.append(round(float(re.sub(r"\(\d+\)$", "", t)), 4))
            except ValueError:
                toks.append(t)
    return toks


def _cocrystal():
    """P-1 co-crystal built in memory: HF listed first with F given by its inverted image (no HF molecule is generated by
    the identity alone), then a complete water molecule -- the order of the unit-cell molecules by component differs from
    their order by share of identity-generated atoms"""
    from chmpy.crystal import Crystal, UnitCell, SpaceGroup, AsymmetricUnit
    from chmpy.core.element import Element
    uc = UnitCell.from_lengths_and_angles([11.7, 14.2, 16.1], [np.radians(84.0), np.radians(97.0), np.radians(103.0)])
    inv = np.linalg.inv(np.asarray(uc.direct, float))
    hf = np.array([[0, 0, 0], [0.92, 0, 0]]) @ inv + np.array([0.62, 0.33, 0.71])
    hf[1] = (-hf[1]) % 1.0
    w = np.array([[0, 0, 0], [0.96, 0, 0], [-0.24, 0.93, 0]]) @ inv + np.array([0.17, 0.21, 0.23])
    els = [Element["H"], Element["F"], Element["O"], Element["H"], Element["H"]]
    return Crystal(uc, SpaceGroup(2), AsymmetricUnit(els, np.vstack([hf, w])))


def _split_site():
    """P-1 crystal with a site 0.003 from an inversion centre (its two images are 0.006 apart: merged at the default tolerance
    of unit_cell_atoms, not at a smaller one) and a water molecule"""
    from chmpy.crystal import Crystal, UnitCell, SpaceGroup, AsymmetricUnit
    from chmpy.core.element import Element
    uc = UnitCell.from_lengths_and_angles([9.3, 10.1, 11.7], [np.radians(85.0), np.radians(98.0), np.radians(102.0)])
    inv = np.linalg.inv(np.asarray(uc.direct, float))
    w = np.array([[0, 0, 0], [0.96, 0, 0], [-0.24, 0.93, 0]]) @ inv + np.array([0.17, 0.21, 0.23])
    pos = np.vstack([[0.503, 0.5, 0.5], w])
    return Crystal(uc, SpaceGroup(2), AsymmetricUnit([Element["Cl"], Element["O"], Element["H"], Element["H"]], pos, occupation=np.array([0.5, 1.0, 1.0, 1.0])))


def run_history(seq, structure="r3c", from_file=True):
    """Execute the history on a real crystal; after every step compare each query's answer with a fresh crystal's.
    Returns list of discrepancies."""
    from chmpy.crystal import Crystal
    if structure == "cocrystal":
        c = _cocrystal()
    elif structure == "split":
        c = _split_site()
    else:
        path = {"r3c": "/repo/src/chmpy/tests/test_files/r3c_example.cif"}[structure]
        c = Crystal.load(path)
        if not from_file:
            c = _fresh(c)
            c.properties["titl"] = "mem"
    bad = []
    for step, name in enumerate(seq):
        if name == "deepcopy":
            c = copy.deepcopy(c)
            continue
        if structure in ("cocrystal", "split") and (name.startswith("choose_trigonal_lattice") or name == "normalize_hydrogen_bondlengths"):
            continue
        if name.startswith("choose_trigonal_lattice"):
            before = c.space_group.choice
            c.choose_trigonal_lattice("R" if before == "H" else "H")
            continue
        if name == "normalize_hydrogen_bondlengths":
            c.normalize_hydrogen_bondlengths()
            continue
        kw = QUERY_ARGS.get(name)
        if kw is None or not hasattr(c, name):
            continue
        state_before = (np.array(c.unit_cell.direct, float).copy(), c.space_group.choice, np.array(c.asymmetric_unit.positions, float).copy(),
                        [int(o.integer_code) for o in c.space_group.symmetry_operations], [int(e.atomic_number) for e in c.asymmetric_unit.elements])
        f = _fresh(c)
        try:
            def ask(obj):
                v = getattr(obj, name)
                return v(**kw) if callable(v) else v        # density is a property
            got, want = ask(c), ask(f)
            again = ask(c)
        except Exception as e:
            bad.append("step %d %s raises %s: %s" % (step, name, type(e).__name__, e))
            continue
        if _reparse(name, got) != _reparse(name, want):
            bad.append("step %d: %s differs from the answer of a freshly constructed crystal with the same cell, space group and asymmetric unit" % (step, name))
        if _reparse(name, got) != _reparse(name, again):
            bad.append("step %d: repeating %s gives a different answer" % (step, name))
        if not (np.array_equal(state_before[0], np.array(c.unit_cell.direct, float)) and state_before[1] == c.space_group.choice
                and np.array_equal(state_before[2], np.array(c.asymmetric_unit.positions, float))
                and state_before[3] == [int(o.integer_code) for o in c.space_group.symmetry_operations]
                and state_before[4] == [int(e.atomic_number) for e in c.asymmetric_unit.elements]):
            bad.append("step %d: query %s modified the crystal's state" % (step, name))
    return bad


def replay_history(data):
    bad = []
    for st in data.get("structures") or [data.get("structure", "r3c")]:
        b = run_history(data["history"], st, data.get("from_file", True))
        bad += ["[%s] %s" % (st, x) for x in b]
    return bool(bad), bad


REPLAY = {"hist": replay_history}


# ------------------------------------------------------------------------------ run
def run(ctx):
    ctx.encode_file(CRYSTAL_PY, "crystal.py (AST of class Crystal: caches, state writes, call graph)")
    methods = extract_taints(extract())
    caches, deps, mutators, queries = build_model(methods)
    # keep the queries that can be replayed; every cache-using method stays in the model
    ctx.bound("histories of length <= %d over %d cache-using queries, %d state-changing operations and deepcopy; plus the one-step inductive invariant (all lengths, if it holds)"
              % (4 if ctx.tier == "quick" else 6, len(queries), len(mutators)))
    ctx.assume("abstraction extracted from the source: a query's answer is a function of the caches it (transitively) consults; a cache filled at state version v is valid exactly while the version is v; "
               "every assignment to unit_cell / space_group / asymmetric_unit(.positions) bumps the version")
    ctx.out_of_scope("the same query issued with different arguments; mutation of the crystal's fields from outside the class")
    ctx.samples.append({"caches": caches, "cache_dependencies": deps, "mutators": mutators, "queries": {k: v for k, v in list(queries.items())[:12]}})
    ctx.note("extracted mutators: %s" % mutators)
    # fidelity of the extraction: the memoised attributes it found exist on a real crystal after the producing calls
    from chmpy.crystal import Crystal
    c = Crystal.load("/repo/src/chmpy/tests/test_files/r3c_example.cif")
    c.symmetry_unique_molecules()
    ctx.fidelity_check("extracted caches exist on a real crystal after the producing queries", all(hasattr(c, x) for x in caches), str(caches))
    blind = argument_blind_calls(methods)
    ctx.record("no call in the library hands a literal non-default argument to a memoising query whose memo ignores its arguments (AST scan of src/chmpy, %d memoising queries)"
               % sum(1 for m_ in methods.values() if m_.cache_writes & m_.cache_reads), "holds" if not blind else "counterexample", nontrivial=True, sample=blind[:3])
    qonly = ["unit_cell_atoms", "deepcopy", "unit_cell_molecules", "to_cif_string", "slab", "symmetry_unique_molecules", "density", "to_shelx_string", "to_poscar_string"]
    qbad = [b for st in ("r3c", "cocrystal", "split") for order in (qonly, qonly[::-1]) for b in run_history(order, st, from_file=False)]
    if blind and not qbad:
        ctx.mark_inconclusive("argument-blind memo", "calls %s pass a non-default literal to a memoising query, but the replay histories show no difference" % (blind[:2],))
    ctx.record("queries only (%d queries in both orders, three structures): every answer equals a fresh crystal's, repeats are equal, cell / space group (operation list in order) / asymmetric unit untouched" % len(qonly),
               "holds" if not qbad else "counterexample", nontrivial=True, method="history executed on the real code")
    if qbad:
        ctx.violation("hist:queries-only", "a history of read-only queries: %s" % qbad[0], {"history": qonly[::-1] + ["deepcopy"] + qonly, "from_file": False, "structures": ["r3c", "cocrystal", "split"]}, replay_history)

    kmax = 4 if ctx.tier == "quick" else 6
    found = []
    # inductive step first: covers all lengths when it holds
    t0 = time.time()
    r, seq, cif = search(caches, deps, mutators, queries, 2, inductive=True)
    ctx.record("inductive: one arbitrary operation from any state where every present cache is current, followed by one query, never answers from an older cache",
               {"unsat": "holds", "sat": "counterexample", "unknown": "unknown"}[r], seconds=time.time() - t0, nontrivial=True, solver="z3", sample=seq)
    reported = set()
    executable = set(QUERY_ARGS) | set(mutators) | {"deepcopy"}
    for k in range(2, kmax + 1):
        block = []
        for attempt in range(12 if ctx.tier == "quick" else 40):
            t0 = time.time()
            r, seq, cif = search(caches, deps, mutators, queries, k, block=block, only=executable)
            if r == "unsat" and not block:
                r, seq, cif = search(caches, deps, mutators, queries, k, block=block)     # any operation, also those the replay cannot run
            ctx.record("bmc: history of length %d ending in a stale answer%s" % (k, "" if not block else " (excluding %d earlier)" % len(block)),
                       {"unsat": "holds", "sat": "counterexample", "unknown": "unknown"}[r], seconds=time.time() - t0, nontrivial=True, solver="z3", sample=seq)
            if r != "sat":
                break
            block.append(seq)
            mut = next((s for s in seq if s in mutators), None)
            last = seq[-1]
            stale_kind = "cif_data" if (queries.get(last, {}).get("reads_cif") and cif) else "caches"
            key = "hist:%s:%s" % (mut, stale_kind)
            tainter = next((s_ for s_ in seq if queries.get(s_, {}).get("taints")), None) if mut is None else None
            if tainter:
                key = "hist:alias:%s" % tainter
            if key in reported:
                continue
            structures = ["cocrystal", "r3c"] if tainter else ["r3c"]
            bad = [b for st in structures for b in run_history(seq, st, from_file=bool(cif) or stale_kind == "cif_data")]
            if bad and tainter:
                reported.add(key)
                ctx.violation(key, "query %s modifies the memoised answer of another query in place (%s): history %s" % (tainter, ", ".join(queries[tainter]["taints"]), " -> ".join(seq)),
                              {"history": seq, "from_file": False, "structures": structures}, replay_history)
            elif bad:
                reported.add(key)
                ctx.violation(key, "after %s, %s answers from data computed before the change: history %s" % (mut, last, " -> ".join(seq)),
                              {"history": seq, "from_file": bool(cif) or stale_kind == "cif_data"}, replay_history)
            else:
                ctx.replays.append({"key": key, "history": seq, "reproduced": False,
                                    "detail": "model-level stale answer not observable on the real code (abstraction coarser than the code)"})
    # ---- witness histories executed on the real code (validates the abstraction): for every state-changing operation the
    # patterns  query, change, query  and  change, query, change-back, query  on a crystal loaded from a file and on one
    # built in memory, plus solver-generated histories of length 4 (random model enumeration)
    ops = sorted(queries) + sorted(mutators) + ["deepcopy"]
    runnable_q = [q_ for q_ in QUERY_ARGS if q_ in queries]
    rng = np.random.default_rng(ctx.seed)
    wit = []
    for mu in sorted(mutators):
        for ff in (True, False):
            q1, q2 = (runnable_q[int(rng.integers(len(runnable_q)))] for _ in range(2))
            wit.append(([q1, mu, "unit_cell_atoms" if "unit_cell_atoms" in runnable_q else q2], ff))
            wit.append(([mu, q1, "deepcopy", mu, "unit_cell_molecules" if "unit_cell_molecules" in runnable_q else q2, "to_cif_string"], ff))
    sol = z3.Solver()
    K = 4
    op = [z3.Int("w%d" % i) for i in range(K)]
    runnable = runnable_q + sorted(mutators) + ["deepcopy"]
    for i in range(K):
        sol.add(z3.Or([op[i] == ops.index(o) for o in runnable]))
    sol.add(z3.Or([z3.And(op[i] == ops.index(mu), op[j] == ops.index(q_)) for mu in mutators for q_ in runnable_q for i in range(K) for j in range(i + 1, K)]))
    sol.set("random_seed", int(ctx.seed) % 1000)
    extra = 4 if ctx.tier == "quick" else 40
    while extra > 0 and str(sol.check()) == "sat":
        mdl = sol.model()
        seq = [ops[mdl.eval(op[i], model_completion=True).as_long()] for i in range(K)]
        sol.add(z3.Or([op[i] != ops.index(seq[i]) for i in range(K)]))
        sol.add(op[0] != ops.index(seq[0]))
        wit.append((seq, extra % 2 == 0))
        extra -= 1
    t0 = time.time()
    import multiprocessing as mp
    with mp.get_context("fork").Pool(min(16, len(wit))) as pool:
        outs = pool.starmap(run_history, [(seq, "r3c", ff) for seq, ff in wit])
    for (seq, ff), bad in zip(wit, outs):
        ctx.fidelity.append({"name": "witness history (%s) " % ("from file" if ff else "in memory") + " -> ".join(seq), "ok": not bad, "detail": bad[:2], "verdict_relevant": True})
        if bad:
            mut = next(o for o in seq if o in mutators)
            key = "hist:%s:trace" % mut
            if key not in reported and not any(k.startswith("hist:%s" % mut) for k in reported):
                reported.add(key)
                ctx.violation(key, "history %s (%s): %s" % (" -> ".join(seq), "crystal loaded from a file" if ff else "crystal built in memory", bad[0]),
                              {"history": seq, "from_file": ff}, replay_history)
    ctx.record("witness histories executed on the real code (%d histories: every state change x {query,change,query; change,query,copy,change back,query,export} x {from file, in memory} + solver-generated)" % len(wit),
               "holds" if not any(outs) else "counterexample", seconds=time.time() - t0, nontrivial=True, sample=[w[0] for w in wit[:3]])
    if not reported and any(q["verdict"] == "counterexample" for q in ctx.queries):
        ctx.mark_inconclusive("bmc", "the extracted model admits stale histories that the real code does not exhibit on the test structure")
