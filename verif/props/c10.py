"""C10  Saving a crystal and loading it back reproduces the same structure.

(A) every tabulated setting: CIF and SHELX .res round trip through the real API (finite table:
    ground instances), cell rounding on a family of cells, file-name dispatch.
(B) symbolic coordinates: the real writers/readers run on symbolic fractional coordinates
    (symtext placeholders): each parsed slot holds the printed value of the slot it was written
    from, labels/elements/occupancies in order; POSCAR: lattice rows and the multiset of
    unit-cell atoms grouped by element."""
import os
import tempfile
import time
from fractions import Fraction

import numpy as np
import z3

from .. import symx, symtext
from ..symx import Sym, Explorer, load_shimmed, model_value
from ..symtext import TextModel, sym_float, sym_int
from .c02 import settings
from .c15 import _isinstance, _NumRegex


def _crystal(number, choice, frac=None, cell=None, occ=None):
    from chmpy.crystal import Crystal, UnitCell, SpaceGroup, AsymmetricUnit
    from chmpy.core.element import Element
    cell = cell or ([7.31, 9.12, 11.57], [83.2, 101.4, 95.7])
    uc = UnitCell.from_lengths_and_angles(cell[0], cell[1], unit="degrees")
    frac = np.array(frac if frac is not None else [[0.1234567890123, 0.27, 0.913], [0.52, -0.08, 0.333333333333], [0.75, 0.5, 1.25]])
    els = [Element[z] for z in (6, 17, 1)][: len(frac)]
    labels = np.array(["C1", "Cl2A", "H3"][: len(frac)])
    kw = {"occupation": np.array(occ)} if occ is not None else {}
    return Crystal(uc, SpaceGroup(number, choice), AsymmetricUnit(els, frac, labels=labels, **kw), titl="xtal")


def _cell_params(uc):
    """lengths and angles (degrees) computed from the lattice vectors, independently of UnitCell.parameters"""
    D = np.asarray(uc.direct, float)
    l = np.linalg.norm(D, axis=1)
    ang = [np.degrees(np.arccos(np.clip(np.dot(D[i], D[j]) / (l[i] * l[j]), -1, 1))) for i, j in ((1, 2), (0, 2), (0, 1))]
    return np.r_[l, ang]


def replay_params(data):
    """UnitCell.parameters reports the lengths and angles of the cell (values nearly equal to each other may be snapped together,
    by less than 2e-6 = the resolution the writers print)"""
    from chmpy.crystal import UnitCell
    bad = []
    cells = [(data["lengths"], data["angles"])] if data.get("lengths") else []
    cells += [([15.0, 15.0001, 14.9999], [90.0, 90.0005, 90.0]), ([7.0, 7.00002, 9.0], [89.9995, 90.0, 120.0]), ([10.0, 10.0, 10.0], [90.0, 90.0, 90.0])]
    for lengths, angles in cells:
        uc = UnitCell.from_lengths_and_angles(list(lengths), list(angles), unit="degrees")
        got = np.asarray(uc.parameters, float)
        want = np.r_[lengths, angles]
        if np.abs(got - want).max() > 2e-6:
            bad.append("cell %s %s reports parameters %s" % (list(lengths), list(angles), np.round(got, 7).tolist()))
    return bool(bad), bad[:2]


def _same(a, b, prec, fmt):
    bad = []
    pa_, pb_ = _cell_params(a.unit_cell), _cell_params(b.unit_cell)
    if not np.allclose(pa_, pb_, rtol=0, atol=2.5e-6):
        bad.append("%s: cell (from its lattice vectors) %s read back as %s" % (fmt, np.round(pa_, 6).tolist(), np.round(pb_, 6).tolist()))
    if a.space_group.international_tables_number != b.space_group.international_tables_number:
        bad.append("%s: space group %d read back as %d" % (fmt, a.space_group.international_tables_number, b.space_group.international_tables_number))
    if sorted(int(o.integer_code) for o in a.space_group.symmetry_operations) != sorted(int(o.integer_code) for o in b.space_group.symmetry_operations):
        bad.append("%s: operation set changed" % fmt)
    if not np.allclose(a.unit_cell.parameters, b.unit_cell.parameters, rtol=0, atol=2e-6):
        bad.append("%s: cell parameters %s read back as %s" % (fmt, np.round(a.unit_cell.parameters, 6).tolist(), np.round(b.unit_cell.parameters, 6).tolist()))
    if [e.atomic_number for e in a.asymmetric_unit.elements] != [e.atomic_number for e in b.asymmetric_unit.elements]:
        bad.append("%s: elements changed" % fmt)
    if list(a.asymmetric_unit.labels) != list(b.asymmetric_unit.labels):
        bad.append("%s: labels %s read back as %s" % (fmt, list(a.asymmetric_unit.labels), list(b.asymmetric_unit.labels)))
    pa, pb = np.asarray(a.asymmetric_unit.positions, float), np.asarray(b.asymmetric_unit.positions, float)
    if pa.shape != pb.shape or not np.allclose(pa, pb, rtol=0, atol=prec):
        bad.append("%s: fractional coordinates changed" % fmt)
    return bad


def roundtrip(c, formats=("cif", "res", "poscar")):
    from chmpy.crystal import Crystal
    bad = []
    if "cif" in formats:
        try:
            c2 = Crystal.from_cif_string(c.to_cif_string())
            bad += _same(c, c2, 0.6e-12, "cif")
            oa = np.asarray(c.asymmetric_unit.properties.get("occupation", np.ones(len(c.asymmetric_unit))), float)
            ob = np.asarray(c2.asymmetric_unit.properties.get("occupation"), float)
            if not np.allclose(oa, ob):
                bad.append("cif: occupancies changed")
        except Exception as e:
            bad.append("cif round trip raises %s: %s" % (type(e).__name__, e))
    if "res" in formats:
        try:
            bad += _same(c, Crystal.from_shelx_string(c.to_shelx_string()), 0.6e-12, "res")
        except Exception as e:
            bad.append("res round trip raises %s: %s" % (type(e).__name__, str(e)[:80]))
    if "poscar" in formats:
        try:
            p = Crystal.from_vasp_string(c.to_poscar_string())
            uc = c.unit_cell_atoms()
            if p.space_group.international_tables_number != 1 or not np.allclose(p.unit_cell.direct, c.unit_cell.direct, rtol=0, atol=0.6e-8):
                bad.append("poscar: not P1 with the same lattice vectors")
            A = sorted((int(z), *np.round(np.asarray(x, float), 6)) for z, x in zip(uc["element"], uc["frac_pos"]))
            B = sorted((int(e.atomic_number), *np.round(np.asarray(x, float), 6)) for e, x in zip(p.asymmetric_unit.elements, p.asymmetric_unit.positions))
            if len(A) != len(B) or not np.allclose(np.array(A), np.array(B), rtol=0, atol=2e-6):
                bad.append("poscar: set of unit-cell atoms changed (%d written, %d read)" % (len(A), len(B)))
        except Exception as e:
            bad.append("poscar round trip raises %s: %s" % (type(e).__name__, e))
    return bad


def _rt_setting(nc):
    try:
        return roundtrip(_crystal(nc[0], nc[1], occ=[1.0, 0.5, 0.25]), ("cif", "res"))
    except Exception as e:
        return ["raises %s: %s" % (type(e).__name__, e)]


def replay_setting(data):
    if data.get("formats") == ["poscar"] and data.get("frac") is not None and len(data["frac"]) == 2:
        data = dict(data)
        data["frac"] = list(data["frac"]) + [[0.75, 0.5, 0.25]]     # a third site (H): the element-sorted order differs from the site order
    c = _crystal(int(data["number"]), data["choice"], frac=data.get("frac"), cell=data.get("cell"), occ=data.get("occ"))
    bad = roundtrip(c, tuple(data.get("formats", ("cif", "res", "poscar"))))
    if data.get("files"):
        from chmpy.crystal import Crystal
        d = tempfile.mkdtemp()
        try:
            # each path held another crystal before (written and read): what is read afterwards is what the file holds now
            other = _crystal(2, "", frac=[[0.11, 0.23, 0.37], [0.61, 0.52, 0.43], [0.3, 0.8, 0.9]])
            for ext in (".cif", ".res"):
                f = os.path.join(d, "x" + ext)
                other.save(f)
                Crystal.load(f)
                c.save(f)
                c2 = Crystal.load(f)
                bad += _same(c, c2, 0.6e-12, "save/load " + ext)
                os.remove(f)
            f = os.path.join(d, "POSCAR")
            other.save(f)
            Crystal.load(f)
            c.save(f)
            p = Crystal.load(f)
            if len(p.asymmetric_unit) != len(c.unit_cell_atoms()["element"]):
                bad.append("save/load POSCAR: atom count changed")
            os.remove(f)
        except Exception as e:
            bad.append("save/load raises %s: %s" % (type(e).__name__, e))
        finally:
            os.rmdir(d)
    return bool(bad), bad


REPLAY = {"rt": replay_setting, "params": replay_params}


def run(ctx):
    from chmpy.crystal.crystal import Crystal
    from chmpy.fmt import shelx, vasp
    from chmpy.ext import vasp as extvasp
    ctx.encode(Crystal.to_cif_data, Crystal.to_cif_string, Crystal.from_cif_data.__func__, Crystal.from_cif_string.__func__, Crystal.to_shelx_string,
               Crystal.from_shelx_string.__func__, Crystal.to_poscar_string, Crystal.from_vasp_string.__func__, Crystal.save, Crystal.load.__func__,
               shelx.parse_shelx_file_content, shelx.to_res_contents, shelx._cell_string, shelx._parse_atom_line, vasp.parse_poscar, extvasp.poscar_string)
    thorough = ctx.tier == "thorough"
    ctx.bound("(A) all 530 settings x {cif, res} with 3 sites (ground), 40 cells for the rounding of CELL, file dispatch on 6 settings; "
              "(B) symbolic fractional coordinates in (-2, 2) (and up to 10^4 for one site), 2-3 sites, settings %s"
              % ("1, 14, 33, 48:1, 148:H, 227:1, 2, 19, 61, 88:1, 167:R" if thorough else "1, 14, 48:1, 148:H"))
    ctx.assume("standard element/label strings; CPython formatting model as in C16; np.fromstring(sep=' ') = whitespace split + float; Path.read_text/write_text = identity")
    ctx.out_of_scope("labels that collide with SHELX keywords; occupancies in .res (the format written here does not carry them); unit-cell merging of coincident sites (C01)")
    groups = [(1, ""), (14, ""), (48, "1"), (148, "H")] + ([(33, ""), (227, "1"), (2, ""), (19, ""), (61, ""), (88, "1"), (167, "R")] if thorough else [])
    wides = [(0, 0), (1, 2)] if not thorough else [(i, k) for i in range(2) for k in range(3)]
    secs = [("table", part_table), ("parameters", part_parameters)]
    for g in groups:
        for w in (wides if g in ((1, ""), (14, "")) else wides[:1]):
            secs.append(("symbolic %d:%s %s" % (g[0], g[1], w), (lambda c, g=g, w=w: part_symbolic(c, thorough, [g], [w]))))
    ctx.parallel_sections(secs, nproc=16)


def part_table(ctx):
    t0 = time.time()
    bad = {}
    allset = settings()
    import multiprocessing as mp
    with mp.get_context("fork").Pool(16) as pool:
        outs = pool.map(_rt_setting, allset, chunksize=8)
    for (number, choice), b in zip(allset, outs):
        if b:
            bad[(number, choice)] = b
    ctx.record("table: %d settings x (CIF, SHELX .res): same cell, space group number, operation set, labels, elements, coordinates (and occupancies in CIF) after write+read (ground, real API)" % len(allset),
               "holds" if not bad else "counterexample", seconds=time.time() - t0, nontrivial=True, method="ground instances / enumeration")
    for (number, choice), b in sorted(bad.items())[:3]:
        ctx.violation("rt:setting:%d:%s" % (number, choice), "setting %d:%s: %s" % (number, choice, "; ".join(b[:2])),
                      {"number": number, "choice": choice, "occ": [1.0, 0.5, 0.25], "formats": ["cif", "res"]}, replay_setting)
    # cells: rounding of CELL to 6 decimals / integers, equal-parameter snapping
    rng = np.random.default_rng(ctx.seed)
    cells = [([10.0, 10.0, 10.0], [90.0, 90.0, 90.0]), ([5.0, 7.0, 9.0], [90.0, 101.5, 90.0]), ([3.1234567, 3.1234567, 12.0000004], [90.0, 90.0, 120.0]),
             ([100.0, 1.5, 33.3333333], [60.0000001, 60.0, 60.0]), ([15.0, 15.0001, 14.9999], [90.0, 90.0005, 90.0]), ([7.0, 7.00002, 9.0], [89.9995, 90.0, 120.0])]
    for _ in range(36):
        cells.append((list(np.round(rng.uniform(1, 100, 3), int(rng.integers(0, 8)))), list(np.round(rng.uniform(60, 119, 3), int(rng.integers(0, 8))))))
    badc = None
    for cell in cells:
        try:
            b = roundtrip(_crystal(14, "", cell=cell), ("cif", "res", "poscar"))
        except Exception as e:
            b = ["raises %s" % e]
        if b:
            badc = (cell, b)
            break
    ctx.record("cells: %d cells (integral, nearly equal, general) round trip through CIF, .res (6 decimals) and POSCAR (8 decimals)" % len(cells),
               "holds" if badc is None else "counterexample", nontrivial=True, method="ground instances")
    if badc:
        ctx.violation("rt:cell", "cell %s: %s" % (badc[0], badc[1][0]), {"number": 14, "choice": "", "cell": badc[0]}, replay_setting)
    badf = None
    for number, choice in ((1, ""), (14, ""), (48, "1"), (148, "R"), (227, "1"), (19, "")):
        r, det = replay_setting({"number": number, "choice": choice, "files": True})
        if r:
            badf = (number, choice, det)
            break
    ctx.record("dispatch: Crystal.save / Crystal.load by file name (.cif, .res, POSCAR) on 6 settings", "holds" if badf is None else "counterexample", nontrivial=True, method="ground instances")
    if badf:
        ctx.violation("rt:files", "save/load by file name fails for %d:%s: %s" % (badf[0], badf[1], badf[2][0]), {"number": badf[0], "choice": badf[1], "files": True}, replay_setting)


def part_symbolic(ctx, thorough, groups, wides):
    import chmpy.crystal.crystal as cc
    import chmpy.fmt.shelx as realshelx
    import chmpy.fmt.vasp as realvasp
    import chmpy.fmt.cif as realcif
    mcif = load_shimmed("chmpy.fmt.cif", pre={"float": sym_float, "int": sym_int, "isinstance": _isinstance})
    mshelx = load_shimmed("chmpy.fmt.shelx", pre={"float": sym_float, "int": sym_int})
    mvasp = load_shimmed("chmpy.fmt.vasp", pre={"float": sym_float, "int": sym_int})

    def fromstring(text, sep=" ", **k):
        vals = [sym_float(tok) for tok in text.split()]
        if not any(isinstance(v, Sym) for v in vals):
            return np.array(vals, dtype=float)
        return np.array(vals, dtype=object)
    mvasp.np.fromstring = fromstring
    Sym.is_integer = lambda self: symx.SymBool(z3.IsInt(self.real()))
    F = np.array([[Sym(z3.Real("f%d_%d" % (i, k))) for k in range(3)] for i in range(2)], dtype=object).view(symx.OArr)
    failures = []
    for number, choice in groups:
      for wide in wides:
        for fmt in ("cif", "res", "poscar"):
            # one coordinate over (-10^4, 10^4) (all sign/digit classes), the others inside (0, 1): fields are whitespace separated,
            # so a coordinate can only disturb its neighbours through its own width
            lim = 10 ** 4
            ex = Explorer(assumptions=[z3.And(F[i, k].t > -lim, F[i, k].t < lim) if (i, k) == wide else z3.And(F[i, k].t > 0, F[i, k].t < 1)
                                       for i in range(2) for k in range(3)], max_paths=6000)
            tm = TextModel(ex, max_int_digits=5)
            orig = tm.fmt
            tm.fmt = lambda v, spec, _o=orig: _o(v, ".17f" if (spec == "" and not (v.is_int or v.intlike)) else ("d" if spec == "" else spec))
            symtext.install(tm)
            mcif.NUM_ERR_REGEX = _NumRegex(realcif.NUM_ERR_REGEX, tm)
            c = _crystal(number, choice, frac=[[0.1, 0.2, 0.3], [0.4, 0.5, 0.6]], occ=[1.0, 0.5])
            c.asymmetric_unit.positions = F
            old = (cc.Cif, realshelx.parse_shelx_file_content, realvasp.parse_poscar)
            cc.Cif, realshelx.parse_shelx_file_content, realvasp.parse_poscar = mcif.Cif, mshelx.parse_shelx_file_content, mvasp.parse_poscar
            if fmt == "poscar":
                ucd = {"asym_atom": np.array([0, 1]), "frac_pos": F, "element": np.array([17, 6]), "symop": np.array([16484, 16484]),
                       "label": np.array(["Cl2A", "C1"]), "occupation": np.array([1.0, 1.0]), "cart_pos": None}
                c.unit_cell_atoms = lambda *a, **k: ucd

            def body():
                tm.reset()
                if fmt == "cif":
                    text = c.to_cif_string()
                    return text, cc.Crystal.from_cif_string(text), dict(tm.reg)
                if fmt == "res":
                    text = c.to_shelx_string()
                    return text, cc.Crystal.from_shelx_string(text), dict(tm.reg)
                text = c.to_poscar_string()
                return text, cc.Crystal.from_vasp_string(text), dict(tm.reg)
            t0 = time.time()
            try:
                paths = ex.run(body)
            except symx.SymUnsupported as e:
                paths = None
                ctx.mark_inconclusive("symbolic %s %d:%s" % (fmt, number, choice), "text model does not cover a construct: %s" % e)
            finally:
                cc.Cif, realshelx.parse_shelx_file_content, realvasp.parse_poscar = old
                symtext.install(None)
            if paths is None:
                r, det = replay_setting({"number": number, "choice": choice, "frac": [[0.12345678901234, -0.999999999999, 1.5], [0.5, 0.000000000001, 0.333333333333]], "formats": [fmt]})
                if r:
                    failures.append((number, choice, fmt, det[0], None))
                continue
            ctx.add_paths(ex)
            why, mdl = None, None
            nck = 0
            for p in paths:
                r_, s_ = ex.check(p.pc, timeout_ms=10000)
                if r_ == "unsat":
                    continue
                nck += 1
                if p.exc is not None:
                    why = "%s: %s" % (type(p.exc).__name__, str(p.exc)[:120])
                else:
                    text, c2, reg = p.value
                    why = _check_symbolic(c, c2, reg, fmt, F, ex, p.pc)
                if why:
                    mdl = s_.model() if r_ == "sat" else None
                    break
            ctx.record("symbolic %s round trip, setting %d:%s (wide coordinate %s): every coordinate read back from its own written field on %d sign/digit classes; labels, elements, group, cell kept"
                       % (fmt, number, choice, wide, nck), "holds" if why is None else "counterexample", seconds=time.time() - t0, nontrivial=True)
            if why:
                frac = [[float(model_value(mdl, F[i, k].t)) if mdl is not None else 0.25 for k in range(3)] for i in range(2)]
                failures.append((number, choice, fmt, why, frac))
    for number, choice, fmt, why, frac in failures[:3]:
        d = {"number": number, "choice": choice, "formats": [fmt], "occ": [1.0, 0.5]}     # the symbolic crystal has two sites, occupancies 1 and 0.5
        if frac is not None:
            d["frac"] = frac
        ctx.violation("rt:symbolic:%s" % fmt, "%s round trip (setting %d:%s): %s" % (fmt, number, choice, why), d, replay_setting)


def _check_symbolic(c, c2, reg, fmt, F, ex, pc):
    vals = list(reg.values())

    def is_printed(b, a):
        want = [r for (r, x, spec) in vals if x is a]
        if isinstance(b, Sym) and any(b is r for r in want):
            return True
        if isinstance(b, Sym):
            return any(ex.check(list(pc) + [(b != r).t], timeout_ms=10000)[0] == "unsat" for r in want)
        return False
    pos = np.asarray(c2.asymmetric_unit.positions, dtype=object)
    if fmt == "poscar":
        if c2.space_group.international_tables_number != 1:
            return "not P1"
        if not np.allclose(np.asarray(c2.unit_cell.direct, float), np.asarray(c.unit_cell.direct, float), rtol=0, atol=0.6e-8):
            return "lattice vectors changed"
        els = [e.atomic_number for e in c2.asymmetric_unit.elements]
        if sorted(els) != [6, 17] or pos.shape != (2, 3):
            return "atoms changed: %s" % els
        for row, z in zip(pos, els):
            src = 0 if z == 17 else 1       # unit-cell atom 0 is Cl, atom 1 is C
            for k in range(3):
                if not is_printed(row[k], F[src, k]):
                    return "coordinate %d of the %s atom is not read from its own field" % (k, "Cl" if z == 17 else "C")
        return None
    if c2.space_group.international_tables_number != c.space_group.international_tables_number or \
            sorted(int(o.integer_code) for o in c2.space_group.symmetry_operations) != sorted(int(o.integer_code) for o in c.space_group.symmetry_operations):
        return "space group changed"
    if not np.allclose(np.asarray(c2.unit_cell.parameters, float), np.asarray(c.unit_cell.parameters, float), rtol=0, atol=2e-6):
        return "cell parameters changed"
    if [e.atomic_number for e in c2.asymmetric_unit.elements] != [6, 17] or list(c2.asymmetric_unit.labels) != ["C1", "Cl2A"]:
        return "elements/labels changed: %s %s" % ([e.atomic_number for e in c2.asymmetric_unit.elements], list(c2.asymmetric_unit.labels))
    if pos.shape != (2, 3):
        return "coordinate array shape %s" % (pos.shape,)
    for i in range(2):
        for k in range(3):
            if not is_printed(pos[i, k], F[i, k]):
                return "coordinate %s of site %d is not read from its own written field" % ("xyz"[k], i)
    if fmt == "cif":
        occ = np.asarray(c2.asymmetric_unit.properties.get("occupation"), dtype=object)
        if len(occ) != 2 or abs(float(occ[0]) - 1.0) > 1e-12 or abs(float(occ[1]) - 0.5) > 1e-12:
            return "occupancies changed"
    return None


def part_parameters(ctx):
    """UnitCell.parameters (what every writer prints) on symbolic lengths and angles: snapping of nearly equal values
    moves no parameter by 2e-6 or more, for all cells"""
    from ..symx import Explorer
    ucm = load_shimmed("chmpy.crystal.unit_cell")
    L = [Sym(z3.Real("len%d" % i)) for i in range(3)]
    A = [Sym(z3.Real("ang%d" % i)) for i in range(3)]            # degrees
    ucm.__dict__["np"].degrees = lambda x: np.array(A, dtype=object)
    ex = Explorer(max_paths=20000)
    ex.base = [z3.And(x.t >= 1, x.t <= 200) for x in L] + [z3.And(x.t >= 20, x.t <= 160) for x in A]

    def body():
        uc = ucm.UnitCell.__new__(ucm.UnitCell)
        uc.lengths = list(L)
        uc.angles = [0.0, 0.0, 0.0]
        return ucm.UnitCell.parameters.fget(uc)
    try:
        paths = ex.run(body)
    finally:
        del ucm.__dict__["np"].degrees
    ctx.add_paths(ex)
    ctx.stub("parameters lemma: the angles in degrees are symbolic reals (np.degrees of the stored radians is replaced by them)")
    bad = None
    n = 0
    for p in paths:
        if p.exc is not None:
            ctx.harness_error("UnitCell.parameters raised symbolically: %r" % (p.exc,))
            return
        out = list(p.value)
        n += 1
        goal = z3.And(*[z3.And((Sym._lift(out[i]) - want < Fraction(2, 10 ** 6)).t, (want - Sym._lift(out[i]) < Fraction(2, 10 ** 6)).t) for i, want in enumerate(L + A)])
        r = ctx.query("parameters: path %d of %d (pattern of nearly-equal pairs): every reported length/angle within 2e-6 of the cell's" % (n, len(paths)), p.pc, goal, ex=ex, timeout=30)
        if r.verdict == "cex":
            mdl = r.model
            bad = {"lengths": [float(symx.model_value(mdl, x.t)) for x in L], "angles": [float(symx.model_value(mdl, x.t)) for x in A]}
            break
    if bad:
        ctx.violation("params:snap", "UnitCell.parameters moves a parameter by 2e-6 or more: cell %s %s" % (bad["lengths"], bad["angles"]), bad, replay_params)
