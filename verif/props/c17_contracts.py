"""CrossHair contracts for C17.  Each private function calls the REAL chmpy functions;
CrossHair (z3 back end) searches its postcondition for a counterexample over all inputs
within the stated preconditions.  chr(92) etc. not needed here."""
from typing import List, Tuple

from chmpy.core.element import Element, chemical_formula, _ELEMENT_DATA
from verif.props.ref_elements import SYMBOLS, NAMES

ALPHABET = "abcdefghijklmnopqrstuvwxyzABCDEFGHIJKLMNOPQRSTUVWXYZ0123456789 _-"


def _lookup(x):
    """Element[x] -> atomic number, or -1 when the lookup is rejected with an error."""
    try:
        return int(Element[x].atomic_number)
    except (ValueError, IndexError, KeyError):
        return -1


def _row_ok(e, z: int) -> bool:
    # the element object carries row z of the table: name and symbol (independent reference), radii and mass (the tabulated row)
    n, s, cov, vdw, m = _ELEMENT_DATA[z - 1]
    return (e.atomic_number == z and e.symbol == SYMBOLS[z - 1] and e.name.lower() == NAMES[z - 1]
            and e.cov == cov and e.vdw == vdw and e.mass == m)


def _number_total(n: int) -> bool:
    """
    pre: -200 <= n <= 300
    post: _
    """
    r = _lookup(n)
    if 1 <= n <= 103:
        return r == n and _row_ok(Element[n], n)
    return r == -1


def _number_total_reach(n: int) -> bool:
    """
    pre: -200 <= n <= 300
    post: False
    """
    return _lookup(n) != 12345


def _named_by(s: str, z: int) -> bool:
    """is element z a legitimate reading of the string s?"""
    t = s.strip()
    sym, name = SYMBOLS[z - 1], NAMES[z - 1]
    if t.lower() == sym.lower() or t.lower() == name:
        return True
    if t.lower() == "d" and z == 1:
        return True
    if t.isdigit() and t.isascii() and int(t) == z:
        return True
    # label: leading run of letters is the symbol
    i = 0
    while i < len(s) and s[i].isalpha() and s[i].isascii():
        i += 1
    return i > 0 and s[:i].lower() == sym.lower()


def _sound(s: str) -> bool:
    r = _lookup(s)
    if r == -1:
        return True
    return 1 <= r <= 103 and _named_by(s, r)


def _string_sound_len1(s: str) -> bool:
    """
    pre: len(s) <= 1
    pre: all(c in ALPHABET for c in s)
    post: _
    """
    return _sound(s)


def _string_sound_len2(s: str) -> bool:
    """
    pre: len(s) == 2
    pre: all(c in ALPHABET for c in s)
    post: _
    """
    return _sound(s)


def _string_sound_len3_T(s: str) -> bool:
    """
    pre: len(s) == 3
    pre: all(c in ALPHABET for c in s)
    post: _
    """
    return _sound(s)


def _string_sound_reach(s: str) -> bool:
    """
    pre: len(s) <= 3
    pre: all(c in ALPHABET for c in s)
    post: False
    """
    return _lookup(s) != 12345


def _digit_string_total(n: int, pad: int) -> bool:
    """
    pre: 0 <= n <= 120
    pre: 0 <= pad <= 1
    post: _
    """
    s = " " * pad + str(n) + " " * pad
    r = _lookup(s)
    if 1 <= n <= 103:
        return r == n
    return r == -1


def _variants_complete(z: int, variant: int, digit: int, suffix: int) -> bool:
    """
    pre: 1 <= z <= 103
    pre: 0 <= variant <= 7
    pre: 0 <= digit <= 99
    pre: 0 <= suffix <= 3
    post: _
    """
    sym, name = SYMBOLS[z - 1], NAMES[z - 1]
    tail = ("", "A", "_F2____1____i", "'")[suffix]
    if variant == 0:
        s = sym
    elif variant == 1:
        s = sym.upper()
    elif variant == 2:
        s = sym.lower()
    elif variant == 3:
        s = name
    elif variant == 4:
        s = name.capitalize()
    elif variant == 5:
        s = "  " + sym + " "
    elif variant == 6:
        s = sym + str(digit) + tail
    else:
        s = sym.upper() + str(digit) + tail
    e = Element[s]
    return _row_ok(e, z)


def _order_T(a: int, b: int, c: int) -> bool:
    """
    pre: 1 <= a <= 103 and 1 <= b <= 103 and 1 <= c <= 103
    post: _
    """
    A, B, C = Element[a], Element[b], Element[c]
    ok = not (A < A)
    ok = ok and ((A == B) == (a == b)) and ((hash(A) == hash(B)) == (a == b))
    ok = ok and ((A < B) + (B < A) + (A == B) == 1)            # trichotomy
    ok = ok and (not (A < B and B < C) or A < C)              # transitivity
    ok = ok and (a == 6 or Element[6] < A)                     # carbon least
    ok = ok and (a == 6 or b == 6 or ((A < B) == (a < b)))    # otherwise by atomic number
    ok = ok and ((A <= B) == (A < B or A == B)) and ((A > B) == (B < A)) and ((A >= B) == (not A < B))
    return ok


def _formula_counts(z1: int, z2: int, z3: int, z4: int, n: int) -> bool:
    """
    pre: 1 <= z1 <= 103 and 1 <= z2 <= 103 and 1 <= z3 <= 103 and 1 <= z4 <= 103
    pre: 1 <= n <= 4
    post: _
    """
    zs = [z1, z2, z3, z4][:n]
    els = [Element[z] for z in zs]
    f = chemical_formula(els)
    # parse: symbol = capital + optional lowercase, then optional count
    i, total, seen = 0, 0, []
    while i < len(f):
        j = i + 1
        while j < len(f) and f[j].islower():
            j += 1
        sym = f[i:j]
        k = j
        while k < len(f) and f[k].isdigit():
            k += 1
        n = int(f[j:k]) if k > j else 1
        if sym not in SYMBOLS or sym in seen:
            return False
        if n != sum(1 for z in zs if SYMBOLS[z - 1] == sym):
            return False
        seen.append(sym)
        total += n
        i = k
    # carbon first, then increasing atomic number
    nums = [SYMBOLS.index(s) + 1 for s in seen]
    rest = [n for n in nums if n != 6]
    return total == len(zs) and rest == sorted(rest) and (6 not in nums or nums[0] == 6)


def _formula_large_counts(z1: int, z2: int, n1: int, n2: int, sub: bool) -> bool:
    """
    pre: 1 <= z1 <= 103 and 1 <= z2 <= 103 and z1 != z2
    pre: 1 <= n1 <= 40 and 0 <= n2 <= 130
    post: _
    """
    # multiplicities with one, two and three digits, plain and with unicode subscripts: the formula lists each symbol once,
    # followed by its count written digit by digit (omitted when 1)
    els = [Element[z1]] * n1 + [Element[z2]] * n2
    f = chemical_formula(els, subscript=sub)
    digits = "₀₁₂₃₄₅₆₇₈₉" if sub else "0123456789"

    def block(z, n):
        return SYMBOLS[z - 1] + ("".join(digits[int(ch)] for ch in str(n)) if n > 1 else "")
    parts = [(z1, n1)] + ([(z2, n2)] if n2 > 0 else [])
    parts.sort(key=lambda zn: (zn[0] != 6, zn[0]))
    return f == "".join(block(z, n) for z, n in parts)
