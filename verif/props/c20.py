"""C20  Quasi-random sequences are deterministic, in the unit cube, evenly stratified.

The Sobol kernels are translated from _sobol.pyx (pyx2py, validated against the .so) and run
with *symbolic direction numbers* as 32-bit machine words (z3 bit-vectors): any valid table
row (m_i odd, m_i < 2^i, any a, degree s) gives stratified points and batch == single.
The real table is a ground fact (every row valid).  The Korobov generator's `% 1` is decided
under IEEE binary64."""
import time
from fractions import Fraction

import numpy as np
import z3

from .. import symx, pyx2py, pyxrt, symfp
from ..symx import Sym, SymBool, Explorer
from ..pyxrt import SymBV
from ..symfp import SymFP, F64, fpval

SOBOL = "/repo/src/chmpy/sampling/_sobol.pyx"
LDS = "/repo/src/chmpy/sampling/_lds.pyx"


def _load(path, name, extra=None):
    return pyx2py.load(path, name, dict(pyxrt.RUNTIME), extra=extra, package="chmpy.sampling")


# --------------------------------------------------------------------------------- replay (source semantics + compiled)
def replay_sobol(data):
    """stratification / range / batch==single on concrete dimensions, for the translated source and the compiled module"""
    import chmpy.sampling as cs
    ms = _load(SOBOL, "chmpy.sampling._sobol__py")
    bad = []
    dims = int(data.get("D", 8))
    m = int(data.get("m", 6))
    routes = (("source", ms.quasirandom_sobol, ms.quasirandom_sobol_batch), ("compiled", cs.quasirandom_sobol, cs.quasirandom_sobol_batch))
    if data.get("compiled_only"):     # a defect of the data table shows through either kernel; the translated one is slow for 2^12 points
        routes = routes[1:]
    for tag, single, batch in routes:
        try:
            pts = batch(1, 2 ** m, dims)
            for (s, e) in data.get("windows", []):
                batch(s, e, dims)
            for N in (1, 2, 3, 4, 5, 8, 9, 16, 17):
                single(N, dims)
        except Exception as e:
            bad.append("%s: kernel raises %s: %s (an out-of-bounds access in the compiled code)" % (tag, type(e).__name__, e))
            continue
        if pts.min() < 0 or pts.max() >= 1:
            bad.append("%s: coordinate outside [0,1)" % tag)
        for j in range(dims):
            cells = np.floor(pts[:, j] * 2 ** m).astype(int)
            if len(set(cells.tolist())) != 2 ** m:
                bad.append("%s: coordinate %d: the first %d points do not occupy each of the %d intervals once" % (tag, j, 2 ** m, 2 ** m))
                break
        for (s, e) in data.get("windows", [(1, 9), (5, 5), (7, 40), (33, 64), (2, 3)]):
            b = batch(s, e, dims)
            for k in range(e - s + 1):
                if not np.array_equal(b[k], single(s + k, dims)):
                    bad.append("%s: batch(%d,%d) row %d differs from single(%d)" % (tag, s, e, k, s + k))
                    break
        for m1 in range(0, m + 1):
            m2 = m - m1
            if dims >= 2:
                cells = set(zip(np.floor(pts[:, 0] * 2 ** m1).astype(int).tolist(), np.floor(pts[:, 1] * 2 ** m2).astype(int).tolist()))
                if len(cells) != 2 ** m:
                    bad.append("%s: first two coordinates are not a (0,%d,2)-net (split %d+%d)" % (tag, m, m1, m2))
                    break
    if any(b.startswith("source") for b in bad):
        return True, [b for b in bad if b.startswith("source")] + ["(judged on the .pyx source; the compiled module cannot be rebuilt here)"]
    return bool(bad), bad


def replay_kgf(data):
    import chmpy.sampling as cs
    ml = _load(LDS, "chmpy.sampling._lds__py")
    bad = []
    for tag, single, batch in (("source", ml.quasirandom_kgf, ml.quasirandom_kgf_batch), ("compiled", cs.quasirandom_kgf, cs.quasirandom_kgf_batch)):
        for D in (1, 2, 7, 64):
            b = batch(3, 60, D)
            if b.min() < 0 or b.max() >= 1:
                bad.append("%s kgf: coordinate outside [0,1)" % tag)
            for k in (0, 1, 17, 57):
                if not np.array_equal(b[k], single(3 + k, D)):
                    bad.append("%s kgf: batch row %d differs from single seed %d (D=%d)" % (tag, k, 3 + k, D))
                    break
    if any(b.startswith("source") for b in bad):
        return True, [b for b in bad if b.startswith("source")]
    return bool(bad), bad


def replay_front(data):
    import chmpy.sampling as cs
    bad = []
    for method in ("sobol", "kgf"):
        for seed0 in (4, 1, 2):          # seed 1 is the Sobol origin (all coordinates exactly 0)
            a = cs.quasirandom(5, 3, method=method, seed=seed0)
            b = np.array([cs.quasirandom(3, method=method, seed=seed0 + k) for k in range(5)])
            if a.shape != (5, 3) or not np.array_equal(a, b):
                bad.append("quasirandom(5, 3, %s, seed=%d) is not exactly the points of seeds seed..seed+4" % (method, seed0))
        if not np.array_equal(cs.quasirandom(5, 3, method=method, seed=4), cs.quasirandom(5, 3, method=method, seed=4)):
            bad.append("quasirandom not deterministic")
        # results depend only on the arguments: a caller that rescales its own array in place must not change what the
        # next caller with the same arguments gets
        a2 = cs.quasirandom(6, 2, method=method, seed=9)
        ref = np.array(a2, dtype=float).copy()
        try:
            a2 *= 2.0
            a2 += 1.0
        except Exception:
            pass
        a3 = np.asarray(cs.quasirandom(6, 2, method=method, seed=9), float)
        if a3.shape != ref.shape or not np.array_equal(a3, ref):
            bad.append("quasirandom(6, 2, %s, seed=9) after the caller modified the array of an earlier identical call: different points (answers are shared between calls)" % method)
    bad += _front_history()
    return bool(bad), bad[:4]


def _front_history():
    """results depend only on (seed, dimension): a history of calls with other windows and dimensions in the same process must
    not change what a later call returns (each answer is compared with the single-point generators taken from their own modules,
    not through the front end)"""
    import chmpy.sampling as cs
    from chmpy.sampling._sobol import quasirandom_sobol
    from chmpy.sampling._lds import quasirandom_kgf
    single = {"sobol": quasirandom_sobol, "kgf": quasirandom_kgf}
    bad = []
    hist = [(128, 5, 1), (100, 3, 17), (7, 5, 120), (3, 8, 2), (40, 2, 90), (1, 4, 33), (64, 6, 1), (10, 3, 5), (12, 6, 60)]
    for method in ("kgf", "sobol"):
        for n, d, seed0 in hist:
            try:
                a = np.asarray(cs.quasirandom(n, d, method=method, seed=seed0), float)
                b = np.array([np.asarray(single[method](seed0 + k, d), float) for k in range(n)])
            except Exception as e:
                bad.append("quasirandom(%d, %d, %s, seed=%d) after other calls raises %s: %s" % (n, d, method, seed0, type(e).__name__, e))
                break
            if a.shape != b.shape or not np.array_equal(a, b):
                bad.append("quasirandom(%d, %d, %s, seed=%d) called after calls with other windows / dimensions is not the points of seeds %d..%d "
                           "(the answer depends on the calls made before)" % (n, d, method, seed0, seed0, seed0 + n - 1))
                break
    return bad


REPLAY = {"sobol": replay_sobol, "kgf": replay_kgf, "front": replay_front}


# --------------------------------------------------------------------------------- run
def run(ctx):
    ctx.encode_file(SOBOL, "_sobol.pyx: quasirandom_sobol, quasirandom_sobol_batch (pyx2py, BV32)")
    ctx.encode_file(LDS, "_lds.pyx: phi, alpha, quasirandom_kgf(_batch)")
    import chmpy.sampling as cs
    ctx.encode(cs.quasirandom)
    thorough = ctx.tier == "thorough"
    M = 10 if thorough else 8
    WIN = 64 if thorough else 32
    ctx.bound("symbolic direction numbers: degrees s in %s, first 2^%d points, any a, any odd m_i < 2^i; batch windows 1 <= start <= end <= %d; "
              "real table: all 21201 rows valid (ground), (0,m,2)-net of the first two coordinates for m <= %d (ground, enumerated)"
              % ("1..18", M, WIN, 12 if thorough else 10))
    ctx.assume("unsigned int = 32-bit machine word (z3 BitVec 32); double division by 2^32 exact")
    ctx.out_of_scope("seeds where N[:,None]+1 overflows int32 in the Korobov batch path; log/ceil rounding for end > 2^31; the value of the Korobov constants (phi iteration)")
    ctx.parallel_sections([("sobol-symbolic", lambda c: sobol_symbolic(c, M, thorough)), ("sobol-batch", lambda c: sobol_batch(c, WIN)),
                           ("sobol-table", lambda c: sobol_table(c, thorough)), ("kgf", kgf_part), ("front", front_part)])


def _sym_table(s):
    """table whose row 2 (dimension 1) is a symbolic valid row of degree s"""
    a = SymBV(z3.BitVec("a", 32))
    ms = [SymBV(z3.BitVec("m%d" % i, 32)) for i in range(1, s + 1)]
    tab = np.zeros((4, 19), dtype=object)
    tab[2, 0] = a
    for i, mi in enumerate(ms, start=1):
        tab[2, i] = mi
    valid = []
    for i, mi in enumerate(ms, start=1):
        valid.append(z3.Extract(0, 0, mi.t) == 1)                       # odd
        valid.append(z3.ULT(mi.t, z3.BitVecVal(1 << i, 32)))            # < 2^i
    return tab, valid, a, ms


def _capture(captured, t, v, cast):
    """the kernels convert each output word with <double>(X[..]): record the word itself"""
    if t == "double" and (isinstance(v, SymBV) or isinstance(v, (int, np.integer))):
        w = SymBV._lift(v)
        captured.append(w)
        return w.to_real() if isinstance(v, SymBV) else cast(t, v)
    return cast(t, v)


def _word(x):
    """machine word behind an output coordinate  (X / 2^32 as a symx real)"""
    return x


def sobol_symbolic(ctx, M, thorough):
    import chmpy.sampling._sobol as so
    ms_c = _load(SOBOL, "chmpy.sampling._sobol__pyc")
    ok = True
    try:
        for N, D in [(1, 1), (1, 5), (2, 3), (3, 7), (17, 12), (64, 33), (100, 200), (257, 9)]:
            ok = ok and np.array_equal(so.quasirandom_sobol(N, D), ms_c.quasirandom_sobol(N, D))
        for s, e, D in [(1, 10, 4), (5, 5, 3), (7, 70, 20), (33, 64, 2)]:
            ok = ok and np.array_equal(so.quasirandom_sobol_batch(s, e, D), ms_c.quasirandom_sobol_batch(s, e, D))
    except Exception:
        ok = False
    ctx.compiled_check("pyx2py(_sobol.pyx) == compiled module on 12 (seed, dimension) cases, bit for bit", ok)
    degrees = tuple(range(1, 19))
    tasks = []
    words = {}
    for s in degrees:
        tab, valid, a, mvars = _sym_table(s)
        mod = _load(SOBOL, "chmpy.sampling._sobol__sym%d" % s)
        mod._SOBOL_DATA = tab
        mod.np = symx.SymNumpy()
        mod.np.object_kinds = "fcui"
        # capture the machine words: the kernel divides <double>X by pow(2,32); keep X itself
        captured = []
        mod.__dict__["__cast__"] = lambda t, v, _c=pyxrt.__cast__: _capture(captured, t, v, _c)
        ex = Explorer(assumptions=valid, max_paths=64)
        n = 2 ** M
        paths = ex.run(lambda: (captured.clear(), mod.quasirandom_sobol_batch(1, n, 2), list(captured))[1:])
        ctx.add_paths(ex)
        feas = [p for p in paths if p.exc is None]
        errs = [p for p in paths if p.exc is not None]
        if errs:
            ctx.violation("sobol:exception", "Sobol kernel (source) fails for a valid direction-number row of degree %d: %s: %s" % (s, type(errs[0].exc).__name__, errs[0].exc),
                          {"D": 24, "m": M}, replay_sobol)
            return
        if len(feas) != 1:
            ctx.harness_error("symbolic Sobol run for degree %d: %d paths" % (s, len(paths)))
            continue
        p = feas[0]
        pts, cap = p.value
        X1 = [w for w in cap if isinstance(w, SymBV)][-n:]     # words of dimension 1, seeds 1..n in order
        if len(X1) != n:
            ctx.harness_error("could not capture %d machine words (got %d)" % (n, len(X1)))
            continue
        words[s] = (X1, valid, p.pc, a, mvars)
        top = [z3.Extract(31, 32 - M, w.t) for w in X1]
        ext = (lambda mdl, a=a, mvars=mvars, s=s: {"s": s, "a": mdl.eval(a.t, model_completion=True).as_long(),
                                                  "m": [mdl.eval(v.t, model_completion=True).as_long() for v in mvars]})
        tasks.append(dict(name="sobol: degree s=%d, any valid direction numbers: first %d points hit each of the %d intervals once (top %d bits distinct)" % (s, n, n, M),
                          assumptions=p.pc, goal=z3.Distinct(top), timeout=ctx.default_timeout * 2, extract=ext))
        # triangularity of the direction numbers recovered from the outputs: V[k] = X[2^(k-1)] ^ X[2^(k-1)-1]
        tri = []
        for k in range(1, M + 1):
            vk = X1[2 ** (k - 1)].t ^ X1[2 ** (k - 1) - 1].t        # X1[j] is the word of index j (seed j+1)
            tri.append(z3.And(z3.Extract(32 - k, 32 - k, vk) == 1, z3.Extract(31 - k, 0, vk) == 0 if k < 32 else z3.BoolVal(True)))
        tasks.append(dict(name="sobol: degree s=%d: direction number V[k] has bit 32-k set and no lower bit, k <= %d (triangular generator matrix)" % (s, M),
                          assumptions=p.pc, goal=z3.And(tri), timeout=ctx.default_timeout, extract=ext))
    res = ctx.query_many(tasks)
    for t, r in zip(tasks, res):
        if r.verdict == "cex":
            ctx.violation("sobol:stratification", t["name"] + " -- fails for a valid row %s" % (r.model,), {"D": 24, "m": M}, replay_sobol)
            break


def sobol_batch(ctx, WIN):
    """batch(start,end) row k == single(start+k) as machine words, for symbolic direction numbers of degree 2 and 5"""
    tasks = []
    total = 0
    t0 = time.time()
    for s in (2, 5):
        tab, valid, a, mvars = _sym_table(s)
        mod = _load(SOBOL, "chmpy.sampling._sobol__symb%d" % s)
        mod._SOBOL_DATA = tab
        mod.np = symx.SymNumpy()
        mod.np.object_kinds = "fcui"
        captured = []
        mod.__dict__["__cast__"] = lambda t, v, _c=pyxrt.__cast__: _capture(captured, t, v, _c)
        ex = Explorer(assumptions=valid, max_paths=8)
        single = {}
        for N in range(1, WIN + 1):
            allp = ex.run(lambda: (captured.clear(), mod.quasirandom_sobol(N, 2), list(captured))[2])
            if any(p.exc is not None for p in allp):
                e_ = [p.exc for p in allp if p.exc is not None][0]
                ctx.violation("sobol:exception", "Sobol kernel (source) fails for seed %d: %s: %s" % (N, type(e_).__name__, e_), {"D": 12, "m": 5}, replay_sobol)
                return
            paths = [p for p in allp if p.exc is None]
            if len(paths) != 1:
                ctx.harness_error("symbolic single Sobol run N=%d: %d paths" % (N, len(paths)))
                return
            single[N] = paths[0].value[-1]        # word of dimension 1
        ctx.add_paths(ex)
        bad = None
        for start in range(1, WIN + 1):
            for end in sorted({start, min(WIN, start + 1), min(WIN, start + 7), WIN}):
                if end < start:
                    continue
                allp = ex.run(lambda: (captured.clear(), mod.quasirandom_sobol_batch(start, end, 2), list(captured))[2])
                if any(p.exc is not None for p in allp):
                    e_ = [p.exc for p in allp if p.exc is not None][0]
                    ctx.violation("sobol:exception", "Sobol batch kernel (source) fails for window (%d,%d): %s: %s" % (start, end, type(e_).__name__, e_),
                                  {"D": 12, "m": 5, "windows": [(start, end)]}, replay_sobol)
                    return
                paths = [p for p in allp if p.exc is None]
                if len(paths) != 1:
                    ctx.harness_error("symbolic batch Sobol run (%d,%d): %d paths" % (start, end, len(paths)))
                    return
                w = [x for x in paths[0].value if isinstance(x, SymBV)][-(end - start + 1):]
                total += 1
                eqs = [w[k].t == single[start + k].t for k in range(end - start + 1)]
                g = z3.simplify(z3.And(eqs))
                if z3.is_true(g):
                    continue
                tasks.append(dict(name="sobol: degree %d, batch(%d,%d) = single seeds, any valid direction numbers" % (s, start, end), assumptions=valid, goal=g,
                                  timeout=60, extract=lambda mdl, st=start, en=end: {"windows": [(st, en)]}))
    ctx.record("sobol: batch window == single seeds as machine words for symbolic direction numbers: %d windows within [1,%d], %d decided by term identity, %d sent to the solver"
               % (total, WIN, total - len(tasks), len(tasks)), "holds", seconds=time.time() - t0, nontrivial=True)
    res = ctx.query_many(tasks) if tasks else []
    for t, r in zip(tasks, res):
        if r.verdict == "cex":
            ctx.violation("sobol:batch", t["name"], {"D": 12, "m": 5, "windows": r.model["windows"]}, replay_sobol)
            break


def sobol_table(ctx, thorough):
    t0 = time.time()
    d = np.load("/repo/src/chmpy/sampling/_sobol_parameters.npz")["poly"]
    bad_rows = []
    for j in range(2, d.shape[0]):
        row = d[j]
        nz = np.nonzero(row[1:])[0]
        s = int(nz.max()) + 1 if len(nz) else 0
        mi = row[1:s + 1].astype(np.int64)
        if s == 0 or np.any(mi % 2 == 0) or np.any(mi >= (1 << np.arange(1, s + 1))) or (len(nz) != s):
            bad_rows.append(j - 1)
    ctx.record("table: every row of _sobol_parameters.npz (dimensions 1..%d) is a valid direction-number row (m_i odd, < 2^i, no gaps)" % (d.shape[0] - 2),
               "holds" if not bad_rows else "counterexample", seconds=time.time() - t0, nontrivial=True, method="ground instances")
    ms = _load(SOBOL, "chmpy.sampling._sobol__pyt")
    mmax = 12 if thorough else 10
    try:
        pts = ms.quasirandom_sobol_batch(1, 2 ** mmax, 2)
    except Exception as e:
        ctx.violation("sobol:exception", "Sobol batch kernel (source) fails on (1, %d, 2): %s" % (2 ** mmax, e), {"D": 2, "m": 6}, replay_sobol)
        return
    net_bad = None
    for m in range(1, mmax + 1):
        for m1 in range(0, m + 1):
            cells = set(zip(np.floor(pts[:2 ** m, 0] * 2 ** m1).astype(int).tolist(), np.floor(pts[:2 ** m, 1] * 2 ** (m - m1)).astype(int).tolist()))
            if len(cells) != 2 ** m:
                net_bad = (m, m1)
    ctx.record("table: first two coordinates form a (0,m,2)-net for every m <= %d and every split (source semantics, enumerated)" % mmax,
               "holds" if net_bad is None else "counterexample", nontrivial=True, method="enumeration")
    if bad_rows or net_bad is not None:
        ctx.violation("sobol:table", "direction-number table / (0,m,2)-net: %s %s" % (bad_rows[:3], net_bad), {"D": max(2, min(1000, (bad_rows or [2])[0] + 2)), "m": 12 if bad_rows else 6, "compiled_only": bool(bad_rows)}, replay_sobol)


def kgf_part(ctx):
    import chmpy.sampling._lds as ld
    ml = _load(LDS, "chmpy.sampling._lds__pyc")
    ok = all(np.array_equal(ld.quasirandom_kgf(N, D), ml.quasirandom_kgf(N, D)) for N, D in [(1, 1), (5, 3), (1000, 7), (123456, 64)])
    ok = ok and np.array_equal(ld.quasirandom_kgf_batch(3, 50, 5), ml.quasirandom_kgf_batch(3, 50, 5))
    ctx.compiled_check("pyx2py(_lds.pyx) == compiled module, bit for bit", ok)
    # FP64 lemmas about the final  (offset + a*k) % 1  (numpy remainder by 1)
    x = SymFP(z3.FP("x", F64))
    finite_nonneg = [z3.Not(z3.fpIsNaN(x.t)), z3.Not(z3.fpIsInf(x.t)), z3.fpGEQ(x.t, fpval(0.0))]
    r = x % 1
    q1 = ctx.query("kgf: for every finite double x >= 0:  0 <= x % 1 < 1  (IEEE binary64)", finite_nonneg, z3.And(z3.fpGEQ(r.t, fpval(0.0)), z3.fpLT(r.t, fpval(1.0))))
    a = SymFP(z3.FP("a", F64))
    k = SymFP(z3.FP("k", F64))
    hyp = [z3.fpGEQ(a.t, fpval(0.0)), z3.fpLT(a.t, fpval(1.0)), z3.fpGEQ(k.t, fpval(2.0)), z3.fpLEQ(k.t, fpval(2.0 ** 32))]
    y = fpval(0.5) + a * k if False else (a * k) + 0.5
    q2 = ctx.query("kgf: a in [0,1), k in [2, 2^32]  =>  0.5 + a*k is finite and >= 0.5  (IEEE binary64)", hyp,
                   z3.And(z3.Not(z3.fpIsInf(y.t)), z3.Not(z3.fpIsNaN(y.t)), z3.fpGEQ(y.t, fpval(0.5))), timeout=ctx.default_timeout * 2)
    # structure: the source computes a_i = pow(1/g, i+1) % 1 and returns (0.5 + a*(N+1)) % 1, batch with N as int32 column
    D = 3
    av = np.array([SymFP(z3.FP("a%d" % i, F64)) for i in range(D)], dtype=object)
    # run the translated front ends with alpha() replaced by symbolic doubles
    def fake_alpha(view):
        for i in range(D):
            view[i] = av[i]
    ml2 = _load(LDS, "chmpy.sampling._lds__sym")
    ml2.alpha = fake_alpha
    ml2.np = symx.SymNumpy()
    bad = False
    try:
        ex = Explorer()
        paths = ex.run(lambda: (ml2.quasirandom_kgf(7, D), ml2.quasirandom_kgf_batch(5, 9, D)))
        ctx.add_paths(ex)
        for p in paths:
            if p.exc is not None:
                raise p.exc
            single, batch = p.value
            for i in range(D):
                g = z3.fpEQ(batch[2][i].t, single[i].t)
                r_ = ctx.query("kgf: batch(5,9) row for seed 7, coordinate %d == single(7), any constants a_i in [0,1) (binary64 terms)" % i,
                               [z3.fpGEQ(av[i].t, fpval(0.0)), z3.fpLT(av[i].t, fpval(1.0))], g)
                bad = bad or r_.verdict == "cex"
    except Exception as e:
        ctx.mark_inconclusive("kgf: symbolic batch/single comparison", "not executable symbolically: %s" % e)
    if q1.verdict == "cex" or q2.verdict == "cex" or bad:
        ctx.violation("kgf:range", "Korobov points leave [0,1) or batch != single", {}, replay_kgf)
    else:
        okr, det = replay_kgf({})
        ctx.concrete_note("kgf replay oracle on the real code", not okr, str(det))


def front_part(ctx):
    """chmpy.sampling.quasirandom: the points of seeds seed..seed+d1-1 (symbolic seed, stub generators returning the
    seed each row stands for)"""
    m = symx.load_shimmed("chmpy.sampling")

    def batch_stub(kind):
        def f(s, e, D):
            n = z3.simplify((Sym._lift(e) - Sym._lift(s) + 1).t)
            if not z3.is_int_value(n):
                raise symx.SymUnsupported("window length not determined")
            out = np.empty(n.as_long(), dtype=object)
            for k in range(n.as_long()):
                out[k] = (kind, s + k, D)
            return out
        return f
    # the four real generators are replaced wherever the module refers to them (names and dispatch tables alike), so that
    # the wiring of the tables is part of what is executed
    import chmpy.sampling as realmod
    repl = {}
    for kind in ("sobol", "kgf"):
        single, batch = getattr(realmod, "quasirandom_%s" % kind), getattr(realmod, "quasirandom_%s_batch" % kind)
        repl[id(single)] = (lambda N, D, k=kind: (k, N, D))
        repl[id(batch)] = batch_stub(kind)

    def swap(v, depth=0):
        if id(v) in repl:
            return repl[id(v)]
        if depth < 3 and isinstance(v, dict):
            return {k: swap(x, depth + 1) for k, x in v.items()}
        if depth < 3 and isinstance(v, (tuple, list)):
            return type(v)(swap(x, depth + 1) for x in v)
        return v
    for name, val in list(m.__dict__.items()):
        if not name.startswith("__") and (callable(val) or isinstance(val, (dict, tuple, list))):
            new = swap(val)
            if new is not val:
                m.__dict__[name] = new
    seed, d2 = Sym(z3.Int("seed")), Sym(z3.Int("d2"))
    bad = False
    for method in ("sobol", "kgf"):
        for d1 in (1, 2, 7):
            ex = Explorer(assumptions=[seed.t >= 1, d2.t >= 1])
            try:
                paths = ex.run(lambda: (m.quasirandom(d2, method=method, seed=seed), m.quasirandom(d1, d2, method=method, seed=seed)))
            except (symx.SymUnsupported, symx.PathLimit) as e:
                ctx.mark_inconclusive("front end (%s, d1=%d)" % (method, d1), "not executable symbolically: %s" % e)
                continue
            ctx.add_paths(ex)
            for p in paths:
                if p.exc is not None:
                    bad = True
                    continue
                one, many = p.value
                ok = one[0] == method and one[1] is seed and one[2] is d2 and len(many) == d1 and all(r[0] == method and r[2] is d2 for r in many)
                goal = z3.And([(many[k][1] == seed + k).t for k in range(d1)]) if ok else z3.BoolVal(False)
                r = ctx.query("front end (%s): quasirandom(%d, d2, seed) returns the points of seeds seed..seed+%d, for all seeds" % (method, d1, d1 - 1),
                              p.pc, goal)
                bad = bad or r.verdict == "cex"
    # histories: the symbolic lemma above is about one call on a fresh module (and is inconclusive when the module keeps tables
    # whose size depends on the symbolic seed); calls made one after the other with other windows and dimensions are ground
    # instances on the real module
    hb = _front_history()
    ctx.record("front end: 9 calls per method one after the other (windows and dimensions growing and shrinking) each return the points of their own seeds",
               "counterexample" if hb else "holds", nontrivial=True, method="ground instances")
    if hb:
        ctx.violation("front:history", hb[0], {}, replay_front)
    if bad:
        ctx.violation("front:dispatch", "chmpy.sampling.quasirandom does not return the points of seeds seed..seed+d1-1", {}, replay_front)
