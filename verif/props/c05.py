"""C05  Promolecule density is a sum of spherical atoms; stockholder weights are shares.

The translated _density.pyx kernels (pyx2py, validated against the .so) run on a symbolic
evaluation point, symbolic atom positions and a symbolic uniformly spaced table whose values
are an uninterpreted positive function; density.py runs on a symbolic atomic number."""
import time

import numpy as np
import z3

from .. import symx, pyx2py, pyxrt
from ..symx import Sym, SymBool, Explorer, load_shimmed, model_value

PYX = "/repo/src/chmpy/interpolate/_density.pyx"
BOHR2 = 0.5291772108 * 0.5291772108


class Table:
    """xi[k] = l + k*dx (symbolic l, dx) or yi[k] = Y_row(k) (uninterpreted, positive at every index used)"""

    def __init__(self, ex, n, kind, l=None, dx=None, name="Y"):
        self.ex, self.n, self.kind, self.l, self.dx = ex, n, kind, l, dx
        self.shape = (n,)
        self.f = z3.Function(name, z3.IntSort(), z3.RealSort())
        self.name = name
        self.used = []

    def __len__(self):
        return self.n

    def __getitem__(self, k):
        if isinstance(k, (int, np.integer)):
            if k < 0:
                k += self.n
            kt = z3.IntVal(int(k))
        elif isinstance(k, Sym):
            kt = k.t if k.is_int else z3.ToInt(k.t)
        else:
            raise symx.SymUnsupported("table index %r" % (k,))
        if self.kind == "x":
            return self.l + Sym(z3.ToReal(kt)) * self.dx
        v, name = self.ex.fresh("tab")
        self.ex.defs[name] = [v.t == self.f(kt), v.t > 0]
        self.used.append((kt, v))
        return v


def _load(extra=None):
    m = pyx2py.load(PYX, "chmpy.interpolate._density__py", dict(pyxrt.RUNTIME), package="chmpy.interpolate")
    return m


# ------------------------------------------------------------------------------------- replay
def replay_density(data):
    """numeric statement of the property on the real (compiled) API and on the translated source"""
    from chmpy.interpolate.density import PromoleculeDensity, StockholderWeight
    from chmpy.interpolate import _density as cd
    rng = np.random.default_rng(int(data.get("seed", 0)))
    bad = []
    Z = np.array(data.get("Z", [8, 1, 1, 6, 17]))
    pos = np.array(data.get("pos", rng.normal(size=(len(Z), 3)) * 1.5), float)
    pts = np.array(data.get("pts", rng.normal(size=(40, 3)) * 3.0), float)
    pts = pts[np.min(np.linalg.norm(pts[:, None] - pos[None], axis=2), axis=1) > 0.3]
    dom, rho_tab = cd._DOMAIN.astype(float), cd._RHO.astype(float)

    def ref_atom(z, r2):
        x = r2 / BOHR2
        return np.interp(x, dom, rho_tab[z - 1], left=rho_tab[z - 1][0], right=rho_tab[z - 1][-1])
    ref = sum(ref_atom(z, ((pts - p) ** 2).sum(axis=1)) for z, p in zip(Z, pos))
    d = PromoleculeDensity((Z, pos))
    got = d.rho(pts)
    tol = 2e-4
    if not np.allclose(got, ref, rtol=tol, atol=1e-12):
        bad.append("rho differs from the sum of tabulated atomic densities (max rel %.2g)" % np.max(np.abs(got - ref) / ref))
    if np.any(got <= 0):
        bad.append("non-positive density")
    k = max(1, len(Z) // 2)
    a, b = PromoleculeDensity((Z[:k], pos[:k])), PromoleculeDensity((Z[k:], pos[k:]))
    if len(Z) > 1:
        if not np.allclose(a.rho(pts) + b.rho(pts), got, rtol=1e-5):
            bad.append("not additive over disjoint atom sets")
        perm = rng.permutation(len(Z))
        if not np.allclose(PromoleculeDensity((Z[perm], pos[perm])).rho(pts), got, rtol=1e-5):
            bad.append("depends on atom order")
        Q = np.linalg.qr(rng.normal(size=(3, 3)))[0]
        t = np.array([0.7, -1.1, 2.3])
        if not np.allclose(PromoleculeDensity((Z, pos @ Q + t)).rho(pts @ Q + t), got, rtol=2e-3):
            bad.append("not invariant under a rigid motion")
        for bg in (0.0, 1e-3):
            s = StockholderWeight(a, b, background=bg)
            w = s.weights(pts)
            want = a.rho(pts) / (a.rho(pts) + b.rho(pts) + bg)
            if not np.allclose(w, want, rtol=1e-5) or w.min() < 0 or w.max() > 1:
                bad.append("stockholder weight is not rho_a/(rho_a+rho_b+background) in [0,1]")
            if bg == 0.0 and not np.allclose(w + StockholderWeight(b, a).weights(pts), 1.0, rtol=0, atol=1e-5):
                bad.append("complementary weights do not sum to one")
            na = max(1, len(Z) // 2)
            w2 = StockholderWeight.from_arrays(Z[:na], pos[:na], Z[na:], pos[na:], background=bg).weights(pts)
            if not np.allclose(w2, want, rtol=1e-5):
                bad.append("StockholderWeight.from_arrays(..., background=%g) is not rho_a/(rho_a+rho_b+background)" % bg)
        if len(Z) > 1:
            import os
            import tempfile
            from chmpy.core.element import Element
            tmpd = tempfile.mkdtemp(prefix="c05r_", dir="/var/tmp")
            try:
                names = []
                for tag, zz, pp in (("a", Z[:na], pos[:na]), ("b", Z[na:], pos[na:])):
                    fn = os.path.join(tmpd, tag + ".xyz")
                    open(fn, "w").write("%d\n%s\n" % (len(zz), tag) + "\n".join("%s %.10f %.10f %.10f" % (Element[int(z)].symbol, *p_) for z, p_ in zip(zz, pp)) + "\n")
                    names.append(fn)
                w3 = StockholderWeight.from_xyz_files(names[0], names[1]).weights(pts)
                want3 = a.rho(pts) / (a.rho(pts) + b.rho(pts))
                if not np.allclose(w3, want3, rtol=1e-4, atol=1e-6):
                    bad.append("StockholderWeight.from_xyz_files(f1, f2) is not rho(f1)/(rho(f1)+rho(f2)) (max deviation %.3g)" % np.abs(w3 - want3).max())
                # the two files swap their contents (atoms now named by upper-case site labels such as CL5, as other programs write them); loading the same paths
                # again describes the new contents
                ta, tb = open(names[0]).read(), open(names[1]).read()
                up = lambda t: "\n".join(t.split("\n")[:2] + [" ".join([ln.split()[0].upper() + str(k + 1)] + ln.split()[1:]) for k, ln in enumerate(x for x in t.split("\n")[2:] if x.strip())]) + "\n"
                ta, tb = up(ta), up(tb)
                open(names[0], "w").write(tb)
                open(names[1], "w").write(ta)
                w4 = StockholderWeight.from_xyz_files(names[0], names[1]).weights(pts)
                want4 = b.rho(pts) / (a.rho(pts) + b.rho(pts))
                if not np.allclose(w4, want4, rtol=1e-4, atol=1e-6):
                    bad.append("StockholderWeight.from_xyz_files on rewritten files does not describe their new contents (max deviation %.3g)" % np.abs(w4 - want4).max())
                r5 = PromoleculeDensity.from_xyz_file(names[0]).rho(pts)
                if not np.allclose(r5, b.rho(pts), rtol=1e-4, atol=1e-12):
                    bad.append("PromoleculeDensity.from_xyz_file on a rewritten file does not describe its new contents")
            finally:
                for fn in os.listdir(tmpd):
                    os.remove(os.path.join(tmpd, fn))
                os.rmdir(tmpd)
    if data.get("_single_point"):
        # single-point kernels (used by the radial root finder) exist as callables only in the translated source
        for k in range(min(8, len(pts))):
            pt = pts[k].astype(np.float32)
            one = d.dens.one_rho(pt)
            if abs(one - ref[k]) > 5e-4 * ref[k] + 1e-12:
                bad.append("single-point density differs from the sum of tabulated atomic densities at %s: %.6g vs %.6g" % (pts[k].tolist(), one, ref[k]))
                break
        if len(Z) > 1:
            s0 = StockholderWeight(a, b, background=0.0)
            for k in range(min(8, len(pts))):
                pt = pts[k].astype(np.float32)
                w1 = s0.s.one_weight(pt)
                wr = a.rho(pts[k:k + 1])[0] / (a.rho(pts[k:k + 1])[0] + b.rho(pts[k:k + 1])[0])
                if abs(w1 - wr) > 1e-3:
                    bad.append("single-point stockholder weight %.6g is not rho_a/(rho_a+rho_b) = %.6g" % (w1, wr))
                    break
    return bool(bad), bad


def replay_source(data):
    """the same on the translated .pyx source (the compiled module cannot be rebuilt here)"""
    import chmpy.interpolate.density as dm
    m = _load()
    oa, ob = dm.cPromol, dm.cStock
    dm.cPromol, dm.cStock = m.PromoleculeDensity, m.StockholderWeight
    try:
        d2 = dict(data)
        d2["_single_point"] = True
        return replay_density(d2)
    finally:
        dm.cPromol, dm.cStock = oa, ob


def replay_row(data):
    from chmpy.interpolate.density import PromoleculeDensity
    from chmpy.interpolate import _density as cd
    if data.get("Zs"):
        # several atoms in the caller's order: atom i must be evaluated with the table row of ITS element, at ITS position
        rng = np.random.default_rng(1)
        for zs in [list(data["Zs"]), [8, 1, 1], [17, 11], [7, 6, 1], [1, 8, 1]]:
            zs = np.array(zs)
            pos = rng.normal(size=(len(zs), 3)) * 1.5
            d = PromoleculeDensity((zs, pos))
            for i, z in enumerate(zs):
                if not np.array_equal(np.asarray(d.rho_data[i]), cd._RHO[z - 1]):
                    return True, "atoms %s: atom %d (Z=%d) is bound to a table row that is not row %d" % (zs.tolist(), i, z, z - 1)
            if not np.allclose(np.asarray(d.positions, float), pos, rtol=0, atol=1e-6):
                return True, "atoms %s: positions reordered" % zs.tolist()
        return False, "rows follow the atoms for every list tried"
    z = int(data["Z"])
    try:
        d = PromoleculeDensity((np.array([z]), np.array([[0.0, 0.0, 0.0]])))
    except ValueError:
        return (1 <= z <= 103), "Z=%d rejected" % z
    if not (1 <= z <= 103):
        return True, "Z=%d accepted" % z
    ok = np.array_equal(np.asarray(d.rho_data[0]), cd._RHO[z - 1])
    return (not ok), "atom with Z=%d is bound to a table row other than %d" % (z, z - 1)


REPLAY = {"dens": replay_density, "src": replay_source, "row": replay_row, "wrap": replay_density}


# ------------------------------------------------------------------------------------- run
def run(ctx):
    import chmpy.interpolate.density as realpy
    ctx.encode_file(PYX, "_density.pyx: interp_f, interp_f_one, PromoleculeDensity.evaluate_rho/one_rho, StockholderWeight.weights/one_weight")
    ctx.encode(realpy.PromoleculeDensity.__init__, realpy.PromoleculeDensity.rho, realpy.StockholderWeight.weights, realpy.StockholderWeight.from_arrays.__func__)
    ctx.bound("1-3 atoms (additivity makes more redundant), one evaluation point, table of 4096 entries on a uniform grid with symbolic origin/spacing and an "
              "uninterpreted positive value function; atomic numbers: all integers")
    ctx.assume("reals for float32/float64; the table grid is exactly uniform (the shipped grid deviates from uniform by < 3e-4 of a spacing, recorded below)")
    ctx.out_of_scope("float32 rounding (sum order at 1e-7 relative); points within 0.3 A of a nucleus; the numerical values of the table")
    ctx.parallel_sections([("interp", part_interp), ("rho", part_rho), ("rows", part_rows), ("wrappers", part_wrappers)])


def _setup(ex, nrows=1):
    l, dx = Sym(z3.Real("l")), Sym(z3.Real("dx"))
    xi = Table(ex, 4096, "x", l, dx)
    ys = [Table(ex, 4096, "y", name="Y%d" % r) for r in range(nrows)]
    return l, dx, xi, ys


def part_interp(ctx):
    import chmpy.interpolate._density as cd
    m = _load()
    # translator validation
    rng = np.random.default_rng(ctx.seed)
    pos = (rng.normal(size=(3, 3)) * 1.2).astype(np.float32)
    rows = np.ascontiguousarray(cd._RHO[[7, 0, 16]])
    A, B = cd.PromoleculeDensity(pos, cd._DOMAIN, rows), m.PromoleculeDensity(pos, cd._DOMAIN, rows)
    pts = (rng.normal(size=(12, 3)) * 2.5).astype(np.float32)
    ctx.compiled_check("pyx2py(_density.pyx).rho == compiled module on random points (float32, rtol 1e-5)", np.allclose(A.rho(pts), B.rho(pts), rtol=1e-5))
    dom = cd._DOMAIN.astype(float)
    dev = np.abs(np.diff(dom) - (dom[-1] - dom[0]) / (len(dom) - 1)).max() / np.diff(dom).mean()
    ctx.note("shipped table grid: %d points, spacing %.6g, max deviation from uniform %.2g of a spacing" % (len(dom), np.diff(dom).mean(), dev))

    ex = Explorer()
    l, dx, xi, (yi,) = _setup(ex)
    x = Sym(z3.Real("x"))
    ex.base = [dx.t > 0, l.t >= 0]
    m.np = symx.SymNumpy()

    def both():
        yi.used = []
        one = m.interp_f_one(x, xi, yi)
        xs = np.empty(1, dtype=object)
        xs[0] = x
        out = np.empty(1, dtype=object)
        m.interp_f(xs, xi, yi, out)
        return one, out[0], list(yi.used)
    paths = ex.run(both)
    ctx.add_paths(ex)
    ub = l + 4095 * dx
    res = []
    for p in paths:
        if p.exc is not None:
            ctx.harness_error("interp raised symbolically: %r" % (p.exc,))
            return
        one, bat, used = p.value
        one, bat = Sym._lift(one), Sym._lift(bat)
        inside = z3.And(x.t >= (l + dx).t, x.t < ub.t)
        feas_in = ex.check(p.pc + [inside])[0] != "unsat"
        feas_lo = ex.check(p.pc + [x.t < (l + dx).t, x.t >= 0])[0] != "unsat"
        # the index actually used and the interpolation formula
        j = Sym(z3.Int("j"))
        Yf = yi.f
        lerp = lambda jj: (1 - (x - (l + Sym(z3.ToReal(jj)) * dx)) / dx) * Sym(Yf(jj)) + ((x - (l + Sym(z3.ToReal(jj)) * dx)) / dx) * Sym(Yf(jj + 1))
        jj = z3.ToInt(((x - l) / dx).t)
        want = lerp(jj)
        pos_ax = [Yf(jj) > 0, Yf(jj + 1) > 0, Yf(z3.IntVal(0)) > 0, Yf(z3.IntVal(4095)) > 0]
        if feas_lo:
            pos_lo = [yi.f(z3.IntVal(0)) > 0]
            res.append(ctx.query("interp path %s: below the first interval both paths return the first tabulated value (flattened cusp)" % (p.decisions,),
                                 p.pc + [x.t < (l + dx).t, x.t >= 0] + pos_lo, z3.And(one.t == yi.f(z3.IntVal(0)), bat.t == yi.f(z3.IntVal(0))), ex=ex))
        if not feas_in:
            continue
        res.append(ctx.query("interp (single point) path %s: inside the table the value is the linear interpolant on the interval containing x" % (p.decisions,),
                             p.pc + [inside] + pos_ax, (one == want).t, ex=ex))
        res.append(ctx.query("interp (batch) path %s: inside the table the value is the linear interpolant on the interval containing x" % (p.decisions,),
                             p.pc + [inside] + pos_ax, (bat == want).t, ex=ex))
        res.append(ctx.query("interp path %s: interval selection xi[j] <= x < xi[j+1], 1 <= j <= 4094" % (p.decisions,), p.pc + [inside],
                             z3.And((l + Sym(z3.ToReal(jj)) * dx <= x).t, (x < l + Sym(z3.ToReal(jj + 1)) * dx).t, jj >= 1, jj <= 4094), ex=ex))
        res.append(ctx.query("interp path %s: positive inside the table and between the two tabulated values" % (p.decisions,), p.pc + [inside] + pos_ax,
                             z3.And((one > 0).t, (bat > 0).t, z3.Or(z3.And(one.t >= Yf(jj), one.t <= Yf(jj + 1)), z3.And(one.t <= Yf(jj), one.t >= Yf(jj + 1)))), ex=ex))
    if any(r.verdict == "cex" for r in res):
        ctx.violation("src:interp", "interpolation kernel (source) is not the linear interpolant of the table", {"seed": 1}, replay_source)
    # beyond the table: batch fills with yi[-1], single point with 0.0 (both < 2e-22): recorded, below any tolerance of the property
    ctx.note("beyond the table end the batch path returns yi[-1] (~1.7e-22) and the single-point path 0.0: recorded, not a finding")


def part_rho(ctx):
    m = _load()
    m.np = symx.SymNumpy()
    ex = Explorer()
    l, dx, xi, ys = _setup(ex, nrows=3)
    ex.base = [dx.t > 0, l.t >= 0]
    P = np.array([[Sym(z3.Real("p%d" % k)) for k in range(3)]], dtype=object)
    A = np.array([[Sym(z3.Real("a%d_%d" % (i, k))) for k in range(3)] for i in range(3)], dtype=object)

    def dens(idx):
        return m.PromoleculeDensity(np.array([A[i] for i in idx], dtype=object), xi, [ys[i] for i in idx])

    captured = []
    orig_one, orig_f = m.interp_f_one, m.interp_f

    def one_stub(xv, xi_, yi_):
        captured.append(("one", xv, yi_))
        return Sym(z3.Function("rho_" + yi_.name, z3.RealSort(), z3.RealSort())(xv.real()))

    def f_stub(xs, xi_, yi_, out):
        for k in range(len(xs)):
            captured.append(("batch", xs[k], yi_))
            out[k] = Sym(z3.Function("rho_" + yi_.name, z3.RealSort(), z3.RealSort())(Sym._lift(xs[k]).real()))
    m.interp_f_one, m.interp_f = one_stub, f_stub
    ctx.stub("in the sum lemma the per-atom interpolation is an uninterpreted function rho_row(r^2) of the squared distance in bohr^2 (its definition is lemma 'interp')")

    def run_all():
        del captured[:]
        full = dens([0, 1, 2])
        r_full = full.rho(P)[0]
        one_full = full.one_rho(P[0])
        r_a, r_b = dens([0]).rho(P)[0], dens([1, 2]).rho(P)[0]
        r_perm = dens([2, 0, 1]).rho(P)[0]
        sw = m.StockholderWeight(dens([0]), dens([1, 2]), background=Sym(z3.Real("bg")))
        w = sw.weights(P)[0]
        w1 = sw.one_weight(P[0])
        w_ba = m.StockholderWeight(dens([1, 2]), dens([0]), background=0.0).weights(P)[0]
        w_ab0 = m.StockholderWeight(dens([0]), dens([1, 2]), background=0.0).weights(P)[0]
        return r_full, one_full, r_a, r_b, r_perm, w, w1, w_ba, w_ab0, list(captured)
    paths = ex.run(run_all)
    ctx.add_paths(ex)
    bad = False
    for p in paths:
        if p.exc is not None:
            ctx.harness_error("density kernels raised symbolically: %r" % (p.exc,))
            return
        r_full, one_full, r_a, r_b, r_perm, w, w1, w_ba, w_ab0, cap = p.value
        # the argument handed to the interpolation is |p - a_i|^2 / bohr^2 with the row of atom i
        okarg = True
        for (kind, xv, yt), i in zip(cap[:3], range(3)):
            d2 = sum((P[0, k] - A[i, k]) * (P[0, k] - A[i, k]) for k in range(3)) / BOHR2
            r = ctx.query("rho: atom %d is interpolated at |p-a|^2/bohr^2 with its own table row [identity]" % i, [], (xv == d2).t, vacuity=False)
            okarg = okarg and r.holds and yt is ys[i]
        bad = bad or not okarg
        qs = [("rho(A u B) = rho(A) + rho(B)", (r_full == r_a + r_b).t), ("rho independent of atom order", (r_perm == r_full).t),
              ("single-point path = batch path", (one_full == r_full).t)]
        bg = z3.Real("bg")
        pos = [r_a.t > 0, r_b.t > 0, bg >= 0]
        qs += [("weight = rho_a/(rho_a+rho_b+background)", (w * (r_a + r_b + Sym(bg)) == r_a).t), ("weight in [0,1]", z3.And(w.t >= 0, w.t <= 1)),
               ("single-point weight = batch weight", (w1 == w).t), ("complementary weights sum to one without background", (w_ba + w_ab0 == 1).t)]
        for nm, g in qs:
            r = ctx.query("rho/weights: " + nm, p.pc + pos, g, ex=ex)
            bad = bad or r.verdict == "cex"
    m.interp_f_one, m.interp_f = orig_one, orig_f
    # rigid motion: |R p + t - (R a + t)|^2 = |p - a|^2 for orthogonal R  (chain: identity, then R^T R := I)
    R = np.array([[Sym(z3.Real("R%d%d" % (i, j))) for j in range(3)] for i in range(3)], dtype=object)
    t = np.array([Sym(z3.Real("t%d" % k)) for k in range(3)], dtype=object)
    Pm = np.array([[Sym(z3.Real("Q%d%d" % (i, j))) for j in range(3)] for i in range(3)], dtype=object)
    d = P[0] - A[0]
    moved = (np.dot(P[0], R) + t) - (np.dot(A[0], R) + t)
    lhs = sum(moved[k] * moved[k] for k in range(3))
    RRt = np.dot(R, R.T)
    form = lambda M: sum(d[i] * M[i, j] * d[j] for i in range(3) for j in range(3))
    r1 = ctx.query("motion: |(pR+t)-(aR+t)|^2 = d (R R^T) d^T [identity]", [], (lhs == form(RRt)).t, vacuity=False)
    I3 = np.eye(3).astype(int).astype(object)
    r2 = ctx.query("motion: with R R^T = I this is |p-a|^2", [], (form(I3) == sum(d[k] * d[k] for k in range(3))).t, vacuity=False)
    bad = bad or r1.verdict == "cex" or r2.verdict == "cex"
    if bad:
        ctx.violation("src:rho", "density/weight kernels (source) violate additivity, order independence, the weight formula or the distance argument", {"seed": 2}, replay_source)
    else:
        okr, det = replay_density({"seed": 3})
        ctx.concrete_note("numeric oracle on the real API (random 5-atom system)", not okr, str(det))


def part_rows(ctx):
    """density.py: the table row bound to an atom is row Z-1; Z outside 1..103 rejected (symbolic atomic number)"""
    import chmpy.interpolate.density as realpy
    md = load_shimmed("chmpy.interpolate.density")
    captured = []

    class Rec:
        def __init__(self, positions, domain, rho_data):
            captured.append(rho_data)
    md.cPromol = Rec
    Z = Sym(z3.Int("Z"))
    ex = Explorer(max_paths=400, int_fork_bound=400)

    OTHERS = [8, 1]                 # further atoms after the symbolic one, deliberately not in ascending order of Z

    def build():
        del captured[:]
        md.PromoleculeDensity((np.array([Z] + OTHERS, dtype=object), np.array([[0.0, 0.0, 0.0], [1.0, 0.5, 0.25], [-0.75, 0.25, 1.5]])))
        return captured[0]
    paths = ex.run(build)
    ctx.add_paths(ex)
    badz = None
    badorder = False
    rows = 0
    for p in paths:
        s = z3.Solver()
        s.add(*p.pc)
        if str(s.check()) != "sat":
            continue
        zv = s.model().eval(Z.t, model_completion=True).as_long()
        if p.exc is not None:
            r = ctx.query("rows: error path only for atomic numbers outside 1..103", p.pc, z3.Or(Z.t < 1, Z.t > 103))
            if r.verdict == "cex" or not isinstance(p.exc, (ValueError, IndexError)):
                badz = r.model.eval(Z.t, model_completion=True).as_long() if r.verdict == "cex" else zv
        else:
            rows += 1
            rowsv = np.asarray(p.value, dtype=np.float32)
            if not (1 <= zv <= 103) or rowsv.shape[0] != 1 + len(OTHERS) or not np.array_equal(rowsv[0], realpy._RHO[zv - 1]):
                badz = zv
            elif any(not np.array_equal(rowsv[1 + k], realpy._RHO[o - 1]) for k, o in enumerate(OTHERS)):
                badz = zv
                badorder = True
    ctx.record("rows: %d atomic numbers (symbolic first atom, followed by O and H) each bound to table row Z-1 in the caller's order, all other integers rejected" % rows, "holds" if badz is None and rows == 103 else "counterexample", nontrivial=True)
    # table rows are in atomic-number order: electron count of the tabulated range increases strictly with the row (ground fact about the file)
    dom, rho = realpy._DOMAIN.astype(float), realpy._RHO.astype(float)
    r = np.sqrt(dom)
    ne = np.trapz(4 * np.pi * rho * r ** 2, r, axis=1) if hasattr(np, "trapz") else np.trapezoid(4 * np.pi * rho * r ** 2, r, axis=1)
    mono = bool(np.all(np.diff(ne) > 0)) and abs(ne[0] - 1) < 0.05 and abs(ne[1] - 2) < 0.1
    ctx.record("table file: integrated electron count increases strictly with the row index, rows 0,1 integrate to 1,2 (ground)", "holds" if mono else "counterexample",
               nontrivial=True, method="ground instances")
    if badz is not None or rows != 103:
        if badorder or (badz is not None and 1 <= badz <= 103):
            ctx.violation("row:binding", "atoms [%s, 8, 1]: the table rows handed to the kernel do not follow the atoms in the caller's order" % badz, {"Zs": [int(badz), 8, 1]}, replay_row)
        else:
            ctx.violation("row:binding", "atom with atomic number %s is not bound to table row Z-1 / not rejected" % badz, {"Z": badz if badz is not None else 1}, replay_row)


def part_wrappers(ctx):
    """density.py: what the Python wrappers hand to the kernels (symbolic background, symbolic positions): both construction
    routes of StockholderWeight pass interior / exterior densities in this order and the background unchanged; weights()
    passes the evaluation points through"""
    md = load_shimmed("chmpy.interpolate.density")
    log = []

    class RecP:
        def __init__(self, positions, domain, rho_data):
            self.positions, self.rho_data = positions, rho_data

        def rho(self, pts):
            return ("rho", self, pts)

    class RecS:
        def __init__(self, a, b, *args, **kw):
            log.append((a, b, args, kw))
            self.a, self.b, self.bg = a, b, (kw.get("background", args[0] if args else "MISSING"))

        def weights(self, pts):
            return ("weights", self, pts)
    md.cPromol, md.cStock = RecP, RecS
    bg = Sym(z3.Real("bg"))
    PA = np.array([[0.25, -0.5, 1.0]])                    # atom positions concrete (the constructor takes an SVD of them): the symbolic
    PB = np.array([[1.5, 0.75, -0.25], [2.0, -1.25, 0.5]])  # quantities here are the background and the evaluation points
    pts = np.array([[Sym(z3.Real("wp%d" % k)) for k in range(3)]], dtype=object)

    class Pts:
        """stands for an array of evaluation points: astype() hands back the same symbolic coordinates"""
        def __init__(self, a):
            self.a = a

        def astype(self, *a, **k):
            return self

    def same(x, y):
        x, y = np.asarray(x, dtype=float), np.asarray(y, dtype=float)
        return x.shape == y.shape and bool(np.allclose(x, y, rtol=0, atol=1e-6))
    ex = Explorer()
    results = {}

    def go():
        out = {}
        for route in ("constructor", "from_arrays"):
            del log[:]
            if route == "constructor":
                sw = md.StockholderWeight(md.PromoleculeDensity((np.array([8]), PA)), md.PromoleculeDensity((np.array([1, 1]), PB)), background=bg)
            else:
                sw = md.StockholderWeight.from_arrays(np.array([8]), PA, np.array([1, 1]), PB, background=bg)
            P = Pts(pts)
            out[route] = (list(log), sw.weights(P), P)
        return out
    paths = ex.run(go)
    ctx.add_paths(ex)
    bad = None
    # from_xyz_files(f1, f2): interior density from the first file, exterior from the second (file reading stubbed by name)
    import tempfile
    import os
    tmpd = tempfile.mkdtemp(prefix="c05_", dir="/var/tmp")
    fa, fb = os.path.join(tmpd, "a.xyz"), os.path.join(tmpd, "b.xyz")
    open(fa, "w").write("1\nA\nO 0.25 -0.5 1.0\n")
    open(fb, "w").write("2\nB\nH 1.5 0.75 -0.25\nH 2.0 -1.25 0.5\n")
    try:
        del log[:]
        swx = md.StockholderWeight.from_xyz_files(fa, fb)
        a, b, args, kw = log[0]
        okx = len(log) == 1 and same(a.positions, PA) and same(b.positions, PB)
        # the same two paths with other contents (a user regenerating the files): the densities follow the files
        open(fa, "w").write("2\nB\nH 1.5 0.75 -0.25\nH 2.0 -1.25 0.5\n")
        open(fb, "w").write("1\nA\nO 0.25 -0.5 1.0\n")
        del log[:]
        swx = md.StockholderWeight.from_xyz_files(fa, fb)
        a, b, args, kw = log[0]
        okx = okx and len(log) == 1 and same(a.positions, PB) and same(b.positions, PA)
        # element symbols in upper case and site labels (symbol + digits), as other programs write .xyz files: the table rows bound are
        # those of the elements
        open(fa, "w").write("2\nupper\nCL 0.25 -0.5 1.0\nBR2 1.5 0.75 -0.25\n")
        open(fb, "w").write("2\nmixed\nNa1 2.0 -1.25 0.5\nZN2 0.1 0.2 3.3\n")
        del log[:]
        swx = md.StockholderWeight.from_xyz_files(fa, fb)
        a, b, args, kw = log[0]
        ra = md.PromoleculeDensity((np.array([17, 35]), np.array([[0.25, -0.5, 1.0], [1.5, 0.75, -0.25]])))
        rb = md.PromoleculeDensity((np.array([11, 30]), np.array([[2.0, -1.25, 0.5], [0.1, 0.2, 3.3]])))
        okx = okx and np.array_equal(np.asarray(a.rho_data), np.asarray(ra.dens.rho_data)) and np.array_equal(np.asarray(b.rho_data), np.asarray(rb.dens.rho_data))
    except Exception as e:
        okx = False
    finally:
        for f_ in (fa, fb):
            os.remove(f_)
        os.rmdir(tmpd)
    ctx.record("wrappers (from_xyz_files): interior density from the first file, exterior from the second", "holds" if okx else "counterexample", nontrivial=True)
    if not okx:
        bad = "StockholderWeight.from_xyz_files does not build the interior density from the first file and the exterior from the second (files read, rewritten with other contents -- also with upper-case site labels -- and read again), or binds the table rows of other elements"
    for p in paths:
        if p.exc is not None:
            bad = "wrapper raises %s: %s" % (type(p.exc).__name__, p.exc)
            break
        for route, (lg, wres, P) in p.value.items():
            ok = len(lg) == 1
            if ok:
                a, b, args, kw = lg[0]
                ok = isinstance(a, RecP) and isinstance(b, RecP) and same(a.positions, PA) and same(b.positions, PB)
                given = kw.get("background", args[0] if args else None)
                okbg = isinstance(given, Sym) and z3.is_true(z3.simplify(given.t == bg.t))
                okw = isinstance(wres, tuple) and wres[0] == "weights" and wres[2] is P
            r = "holds" if (ok and okbg and okw) else "counterexample"
            ctx.record("wrappers (%s): interior/exterior densities in order, background handed to the kernel unchanged (symbolic), weights() passes the points through" % route,
                       r, nontrivial=True)
            if r != "holds" and bad is None:
                bad = "StockholderWeight via %s: %s" % (route, "densities misplaced" if not ok else ("background not handed to the kernel" if not okbg else "weights() does not evaluate at the given points"))
    if bad:
        ctx.violation("wrap:stockholder", bad, {"seed": 5}, replay_density)
