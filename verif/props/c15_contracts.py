"""CrossHair contracts for C15 (CIF text round trip).  Domain of strings (the property's: expressible in CIF without
nested quotes, not spelled like numbers or reserved words): non-empty, no quote characters, blanks only single and
interior, not starting with _ # ; $, not 'loop_' / 'data_...' / 'save_...' / 'global_' / 'stop_', not fully matching the
numeric pattern."""
from chmpy.fmt.cif import Cif, NUM_ERR_REGEX

ALPHABET = "abE.-+ _#;(x"     # no digits (nothing is spelled like a number) and no letters of the reserved words


def valid_string(s: str) -> bool:
    if len(s) == 0 or not all(c in ALPHABET for c in s):
        return False
    if s[0] == " " or s[-1] == " " or "  " in s:
        return False
    if s[0] in "_#;":
        return False
    return True


def _rt(data):
    return Cif.from_string(Cif(data).to_string()).data


def _scalar_string(s: str) -> bool:
    """
    pre: len(s) <= 4
    pre: valid_string(s)
    post: _
    """
    return _rt({"blk": {"item_a": s}}) == {"blk": {"item_a": s}}


def _scalar_string_reach(s: str) -> bool:
    """
    pre: len(s) <= 4
    pre: valid_string(s)
    post: False
    """
    return _rt({"blk": {"item_a": s}}) is not None


def _loop_two_strings(a: str, b: str, c: str) -> bool:
    """
    pre: len(a) <= 3 and len(b) <= 3 and len(c) <= 3
    pre: valid_string(a) and valid_string(b) and valid_string(c)
    post: _
    """
    d = {"blk": {"grp_x": [a, b], "grp_y": [c, a]}}
    return _rt(d) == d


def _loop_string_and_int(a: str, n: int, k: int) -> bool:
    """
    pre: len(a) <= 3 and valid_string(a)
    pre: -10**6 <= n <= 10**6 and -10**6 <= k <= 10**6
    post: _
    """
    d = {"blk": {"grp_x": [a, a], "grp_n": [n, k], "tag": "t"}}
    return _rt(d) == {"blk": {"tag": "t", "grp_x": [a, a], "grp_n": [n, k]}}


def _scalar_int(n: int) -> bool:
    """
    pre: -10**9 <= n <= 10**9
    post: _
    """
    r = _rt({"b": {"n_1": n}})
    return r == {"b": {"n_1": n}} and type(r["b"]["n_1"]) is int


def _block_and_item_names(name: str, item: str) -> bool:
    """
    pre: 1 <= len(name) <= 3 and 1 <= len(item) <= 3
    pre: all(c in "abX1_-." for c in name) and all(c in "abX1_-." for c in item)
    post: _
    """
    d = {name: {item: "v", item + "_l": ["p", "q"]}}
    return _rt(d) == d


def _block_name_line(name: str) -> bool:
    """
    pre: 1 <= len(name) <= 12
    pre: all(c in "adt_Xb1-." for c in name)
    post: _
    """
    # the unit that reads a block header, on the line the writer emits for that name
    c = Cif({})
    c.content_lines = ["data_" + name]
    c.line_index = 0
    c.parse_data_block_name()
    return c.current_data_block_name == name
