"""C18  Rigid alignment returns the optimal proper rotation.

kabsch_rotation_matrix / reorient_points / rmsd_points / Dimer.calculate_transform are
executed symbolically; LAPACK's SVD is a nondeterministic stub constrained by its contract
(orthogonal factors, ordered non-negative singular values, v.diag(s).w = H).  Optimality is
decided as a chain of solver queries (DESIGN C18)."""
import itertools
import math
import time
from fractions import Fraction

import numpy as np
import z3

from .. import symx
from ..symx import Sym, Explorer, load_shimmed, det3, model_value


def _mat(prefix, n=3, m=3):
    return np.array([[Sym(z3.Real("%s%d%d" % (prefix, i, j))) for j in range(m)] for i in range(n)], dtype=object)


def _I(i, j):
    return 1 if i == j else 0


def _eq(a, b):
    """z3 equality of two symx/py scalars."""
    return (Sym._lift(a) == b).t if not isinstance(a, Sym) else (a == b).t


def _all_eq(A, B):
    return z3.And([_eq(A[i, j], B[i, j]) for i in range(A.shape[0]) for j in range(A.shape[1])])


# ---- independent concrete oracle (Horn's quaternion method, no SVD) ------------------
def horn_min_sq_dev(A, B):
    """min over proper rotations R of |A R - B|_F^2, by the largest eigenvalue of Horn's 4x4 matrix."""
    A, B = np.asarray(A, float), np.asarray(B, float)
    M = A.T @ B
    Sxx, Sxy, Sxz, Syx, Syy, Syz, Szx, Szy, Szz = M.ravel()
    N = np.array([[Sxx + Syy + Szz, Syz - Szy, Szx - Sxz, Sxy - Syx],
                  [Syz - Szy, Sxx - Syy - Szz, Sxy + Syx, Szx + Sxz],
                  [Szx - Sxz, Sxy + Syx, -Sxx + Syy - Szz, Syz + Szy],
                  [Sxy - Syx, Szx + Sxz, Syz + Szy, -Sxx - Syy + Szz]])
    lam = np.linalg.eigvalsh(N)[-1]
    return max(0.0, (A * A).sum() + (B * B).sum() - 2 * lam)


def oracle(A, B, tol=1e-7):
    from chmpy.util.num import kabsch_rotation_matrix, reorient_points, rmsd_points
    A, B = np.asarray(A, float), np.asarray(B, float)
    bad = []
    R = kabsch_rotation_matrix(A.copy(), B.copy())
    scale = max(1.0, (A * A).sum() + (B * B).sum())
    if not np.allclose(R.T @ R, np.eye(3), rtol=0, atol=1e-8):
        bad.append("returned matrix not orthogonal")
    if not abs(np.linalg.det(R) - 1) < 1e-8:
        bad.append("determinant %.6f != +1" % np.linalg.det(R))
    dev = ((A @ R - B) ** 2).sum()
    best = horn_min_sq_dev(A, B)
    if dev > best + tol * scale:
        bad.append("squared deviation %.9g exceeds the optimum over proper rotations %.9g" % (dev, best))
    A2 = reorient_points(A.copy(), B.copy())
    if not np.allclose(A2, A @ R, rtol=0, atol=1e-9 * scale):
        bad.append("reorient_points != A.R")
    r = rmsd_points(A.copy(), B.copy())
    if abs(r * r * len(A) - best) > tol * scale:
        bad.append("rmsd_points %.9g != optimal rmsd %.9g" % (r, math.sqrt(best / len(A))))
    # the same point sets held in other array types (integer coordinates as integer arrays, float32): the aligned set and the
    # deviation are those of the real-number computation
    for tag, conv, tol2 in (("float32", lambda X: X.astype(np.float32), 1e-4), ("int64", lambda X: X.astype(np.int64), 1e-9)):
        if tag == "int64" and not (np.allclose(A, np.round(A)) and np.allclose(B, np.round(B))):
            continue
        Ac, Bc = conv(A), conv(B)
        try:
            A3 = np.asarray(reorient_points(Ac.copy(), Bc.copy()), float)
            r3 = float(rmsd_points(Ac.copy(), Bc.copy()))
        except Exception as e:
            bad.append("%s arrays: %s: %s" % (tag, type(e).__name__, e))
            continue
        if not np.allclose(A3, A @ R, rtol=0, atol=tol2 * scale + 1e-9):
            bad.append("reorient_points on %s arrays != A.R (max deviation %.3g)" % (tag, np.abs(A3 - A @ R).max()))
        if abs(r3 * r3 * len(A) - best) > max(tol, tol2) * scale:
            bad.append("rmsd_points on %s arrays %.6g != optimal rmsd %.6g" % (tag, r3, math.sqrt(best / len(A))))
    return bad


def replay_points(data):
    bad = oracle(data["A"], data["B"])
    return bool(bad), bad


def replay_dimer(data):
    from chmpy.core.molecule import Molecule
    from chmpy.core.dimer import Dimer
    nums = np.array(data["Z"])
    pa, pb = np.array(data["pos_a"], float), np.array(data["pos_b"], float)
    d = Dimer(Molecule.from_arrays(nums, pa), Molecule.from_arrays(nums, pb), transform_ab="calculate")
    R, t = d.transform_ab
    ca, cb = pa.mean(axis=0), pb.mean(axis=0)
    bad = []
    # the same pair reached by moving two molecules that were already used (centroid asked for, first dimer built): the alignment
    # is that of the molecules as they are now
    Qm = np.array([[0.0, -1.0, 0.0], [0.0, 0.0, 1.0], [-1.0, 0.0, 0.0]])        # proper rotation (det +1)
    ma, mb = Molecule.from_arrays(nums, (pa - 1.5) @ Qm.T), Molecule.from_arrays(nums, pb + np.array([4.0, -3.0, 2.5]))
    ma.centroid, mb.centroid
    Dimer(ma, mb, transform_ab="calculate")
    ma.rotate(Qm, origin=(0, 0, 0))          # positions . Qm undoes the . Qm^T above
    ma.translate(np.array([1.5, 1.5, 1.5]))
    mb.translate(-np.array([4.0, -3.0, 2.5]))
    if not (np.allclose(ma.positions, pa, rtol=0, atol=1e-9) and np.allclose(mb.positions, pb, rtol=0, atol=1e-9)):
        moved_ok = False        # rotate/translate conventions differ from the ones assumed here: scenario not applicable
    else:
        moved_ok = True
        for tag_, mol_, want_ in (("first", ma, ca), ("second", mb, cb)):
            if not np.allclose(mol_.centroid, want_, rtol=0, atol=1e-9):
                bad.append("centroid of the %s molecule after moving it in place is not the mean of its positions" % tag_)
        R2, t2 = Dimer(ma, mb, transform_ab="calculate").transform_ab
        dev2 = (((pb - cb) @ R2 - (pa - ca)) ** 2).sum()
        if dev2 > horn_min_sq_dev(pb - cb, pa - ca) + 1e-7 * max(1.0, (pa * pa).sum() + (pb * pb).sum()):
            bad.append("dimer of two molecules moved in place: rotation not optimal (%.6g > %.6g)" % (dev2, horn_min_sq_dev(pb - cb, pa - ca)))
    if not np.allclose(t, cb - ca, rtol=0, atol=1e-9):
        bad.append("translation != centroid difference")
    dev = (((pb - cb) @ R - (pa - ca)) ** 2).sum()
    best = horn_min_sq_dev(pb - cb, pa - ca)
    if dev > best + 1e-7 * max(1.0, (pa * pa).sum() + (pb * pb).sum()):
        bad.append("dimer rotation not optimal: %.9g > %.9g" % (dev, best))
    if abs(np.linalg.det(R) - 1) > 1e-8:
        bad.append("dimer rotation improper")
    return bool(bad), bad


REPLAY = {"pts": replay_points, "dimer": replay_dimer}


def _rat_rot(q):
    a, b, c, d = [Fraction(x) for x in q]
    n = a * a + b * b + c * c + d * d
    return [[(a * a + b * b - c * c - d * d) / n, 2 * (b * c - a * d) / n, 2 * (b * d + a * c) / n],
            [2 * (b * c + a * d) / n, (a * a - b * b + c * c - d * d) / n, 2 * (c * d - a * b) / n],
            [2 * (b * d - a * c) / n, 2 * (c * d + a * b) / n, (a * a - b * b - c * c + d * d) / n]]


GROUND = []
for qv, sv, qw, sw, s in [((1, 2, 3, 4), 1, (2, -1, 1, 3), 1, (5, 3, 1)), ((1, 2, 3, 4), -1, (2, -1, 1, 3), 1, (5, 3, 1)),
                          ((3, 1, -2, 1), 1, (1, 1, 1, 2), -1, (7, 2, 1)), ((3, 1, -2, 1), -1, (1, 1, 1, 2), -1, (4, 3, 2)),
                          ((1, 0, 0, 0), 1, (1, 0, 0, 0), -1, (3, 2, 1)), ((0, 1, 2, 0), -1, (5, 1, 0, 1), 1, (9, 4, 2)),
                          # rank-deficient covariances (planar / collinear point sets)
                          ((1, 2, 3, 4), 1, (2, -1, 1, 3), -1, (5, 3, 0)), ((1, 2, 3, 4), -1, (2, -1, 1, 3), 1, (5, 3, 0)),
                          ((3, 1, -2, 1), 1, (1, 1, 1, 2), -1, (7, 2, 0)), ((0, 1, 2, 0), -1, (5, 1, 0, 1), 1, (9, 4, 0)),
                          ((2, 1, 0, 3), -1, (1, 3, 1, 1), 1, (6, 1, 0)), ((1, 1, 1, 1), 1, (4, 1, 2, 2), -1, (2, 1, 0)),
                          ((1, 2, 3, 4), 1, (2, -1, 1, 3), -1, (5, 0, 0)), ((3, 1, -2, 1), -1, (1, 1, 1, 2), 1, (4, 0, 0)),
                          ((1, 2, 3, 4), 1, (2, -1, 1, 3), 1, (5, 3, 0)), ((3, 1, -2, 1), -1, (1, 1, 1, 2), -1, (4, 0, 0))]:
    GROUND.append(([[sv * x for x in r] for r in _rat_rot(qv)], [[sw * x for x in r] for r in _rat_rot(qw)], s))


def run(ctx):
    import chmpy.util.num as realnum
    m = load_shimmed("chmpy.util.num")
    ctx.encode(realnum.kabsch_rotation_matrix, realnum.reorient_points, realnum.rmsd_points)
    from chmpy.core.dimer import Dimer
    ctx.encode(Dimer.calculate_transform)
    ctx.bound("no bound on coordinates; point count N symbolic data for N in {3,4} in the covariance lemma, "
              "optimality chain independent of N")
    ctx.assume("mathematical reals stand in for IEEE doubles")
    ctx.stub("np.linalg.svd(H) returns any (v,s,w) with v^T v = v v^T = I, w w^T = w^T w = I, det(v),det(w) in {+1,-1}, "
             "s1>=s2>=s3>=0 and v.diag(s).w = H (LAPACK contract, validated on concrete matrices); np.linalg.det = cofactor expansion "
             "(of a registered orthogonal factor: a fresh symbol d with d*d=1)")
    ctx.out_of_scope("floating-point rounding; LAPACK honouring its contract; degenerate inputs where the optimum is not unique are covered "
                     "by the optimal-value formulation (any optimal rotation is accepted)")

    # stub contract validated against the installed LAPACK
    rng = np.random.default_rng(ctx.seed)
    for k in range(5):
        H = rng.normal(size=(3, 3))
        if k == 4:
            H[:, 2] = H[:, 0] + H[:, 1]
        v, s, w = np.linalg.svd(H)
        ok = (np.allclose(v.T @ v, np.eye(3)) and np.allclose(w @ w.T, np.eye(3)) and np.all(np.diff(s) <= 1e-12)
              and s[-1] >= -1e-12 and np.allclose(v @ np.diag(s) @ w, H))
        ctx.fidelity_check("svd contract on concrete matrix %d" % k, ok)
    A0, B0 = rng.normal(size=(5, 3)), rng.normal(size=(5, 3))
    ctx.fidelity_check("shimmed num.py == real on concrete points",
                       np.allclose(m.kabsch_rotation_matrix(A0.copy(), B0.copy()), realnum.kabsch_rotation_matrix(A0.copy(), B0.copy())))
    ctx.concrete_note("oracle accepts real code on random points", not oracle(A0, B0), str(oracle(A0, B0)))
    # the symbolic arrays below carry no machine type: ground instances with integer coordinates (held as float64, int64 and
    # float32 arrays) of congruent and non-congruent sets
    Ai = np.array([[0, 0, 0], [3, 0, 0], [0, 2, 0], [0, 0, 5], [1, 4, 2], [-2, 1, 3]], float)
    Rz = np.array([[0, 1, 0], [-1, 0, 0], [0, 0, 1]], float)
    bad_t = None
    for Bi in (Ai @ Rz + np.array([4, -7, 2.0]), Ai[::-1].copy(), Ai @ Rz @ Rz):
        b_ = oracle(Ai - Ai.mean(axis=0).round(), Bi - Bi.mean(axis=0).round())
        if b_ and bad_t is None:
            bad_t = ((Ai - Ai.mean(axis=0).round()).tolist(), (Bi - Bi.mean(axis=0).round()).tolist(), b_[0])
    ctx.record("point sets with integer coordinates held as float64, int64 and float32 arrays: same alignment and deviation (ground instances)",
               "holds" if bad_t is None else "counterexample", nontrivial=True, method="ground instances")
    if bad_t:
        ctx.violation("pts:types", "alignment depends on the array type of the point sets: %s" % bad_t[2], {"A": bad_t[0], "B": bad_t[1]}, replay_points)

    # ---------------- symbolic run of kabsch_rotation_matrix
    V, W = _mat("v"), _mat("w")
    S = [Sym(z3.Real("s%d" % i)) for i in range(3)]
    dv, dw = Sym(z3.Real("detv")), Sym(z3.Real("detw"))
    seen_H = []

    def svd_stub(H):
        seen_H.append(H)
        return (np.array(V, dtype=object), np.array(S, dtype=object), np.array(W, dtype=object))

    m.np.linalg._svd_hook = svd_stub
    real_det = m.np.linalg.det

    det_cache = {}

    def det_stub(M):
        M = np.asarray(M)
        if M.dtype == object and M.shape == (3, 3):
            if all(M[i, j] is V[i, j] for i in range(3) for j in range(3)):
                return dv
            if all(M[i, j] is W[i, j] for i in range(3) for j in range(3)):
                return dw
            if symx.has_sym(M):
                # abstraction by a proven identity: det(M) == det(V)^a * s1 s2 s3 ^b * det(W)^c as polynomials
                P = det3(M)
                key = P.t.sexpr()
                if key not in det_cache:
                    det_cache[key] = P
                    for (a, b, c) in ((1, 1, 1), (1, 0, 1), (1, 0, 0), (0, 0, 1)):
                        cand = 1
                        abstract = 1
                        if a:
                            cand, abstract = cand * det3(V), abstract * dv
                        if b:
                            cand, abstract = cand * S[0] * S[1] * S[2], abstract * S[0] * S[1] * S[2]
                        if c:
                            cand, abstract = cand * det3(W), abstract * dw
                        sol = z3.Solver()
                        sol.set("timeout", 20000)
                        sol.add(P.t != Sym._lift(cand).t)
                        if str(sol.check()) == "unsat":
                            ctx.record("det(matrix built from v,s,w) = det(v)^%d (s1 s2 s3)^%d det(w)^%d [identity]" % (a, b, c), "holds", nontrivial=True)
                            det_cache[key] = Sym._lift(abstract)
                            break
                return det_cache[key]
        return real_det(M)

    m.np.linalg.det = det_stub
    base = [dv.t * dv.t == 1, dw.t * dw.t == 1, S[0].t >= S[1].t, S[1].t >= S[2].t, S[2].t >= 0]

    for N in (3, 4):
        A, B = _mat("a", N), _mat("b", N)
        ex = Explorer(assumptions=base)
        del seen_H[:]
        paths = ex.run(lambda: m.kabsch_rotation_matrix(np.array(A, dtype=object), np.array(B, dtype=object)))
        ctx.add_paths(ex)
        tag = "kabsch[N=%d]" % N
        # covariance handed to the SVD is A^T B
        H = seen_H[0]
        want = np.dot(A.T, B)
        r = ctx.query(tag + ":covariance=A^T.B", [], _all_eq(H, want), vacuity=False)
        if r.verdict == "cex":
            Av = [[float(model_value(r.model, A[i, j].t)) for j in range(3)] for i in range(N)]
            Bv = [[float(model_value(r.model, B[i, j].t)) for j in range(3)] for i in range(N)]
            ctx.violation("pts:covariance", "matrix given to SVD is not A^T B", {"A": Av, "B": Bv}, replay_points)
    # branch structure: points chosen so that the covariance *is* v.diag(s).w for the factors the stub returns
    # (A = the three unit points, B = V.diag(S).W), which ties every quantity the code may test to v, s, w
    A1 = np.eye(3).astype(int).astype(object)
    B1 = np.dot(np.dot(V, np.diag(S)), W)
    ex = Explorer(assumptions=base)
    paths = ex.run(lambda: m.kabsch_rotation_matrix(np.array(A1, dtype=object), np.array(B1, dtype=object)))
    ctx.add_paths(ex)
    for p in paths:
        _check_path(ctx, ex, p, V, W, S, dv, dw, "kabsch")

    # ---------------- generic lemmas (chains of solver queries)
    _lemmas(ctx, V, W, S)

    # ---------------- reorient_points / rmsd_points: same R, deviation of A.R from B
    Rsym = _mat("r")
    orig = m.kabsch_rotation_matrix
    calls = []

    def fake_kabsch(A, B):
        calls.append((A, B))
        return np.array(Rsym, dtype=object)
    m.kabsch_rotation_matrix = fake_kabsch
    for N in (3, 4):
        A, B = _mat("a", N), _mat("b", N)
        ex = Explorer()
        paths = ex.run(lambda: (m.reorient_points(np.array(A, dtype=object), np.array(B, dtype=object)),
                                m.rmsd_points(np.array(A, dtype=object), np.array(B, dtype=object))))
        ctx.add_paths(ex)
        for p in paths:
            if p.exc is not None:
                ctx.harness_error("reorient/rmsd raised %r" % (p.exc,))
                continue
            A2, rm = p.value
            AR = np.dot(A, Rsym)
            r1 = ctx.query("reorient[N=%d]:A.R" % N, p.pc, _all_eq(A2, AR), vacuity=False)
            dev = sum((AR[i, j] - B[i, j]) * (AR[i, j] - B[i, j]) for i in range(N) for j in range(3))
            # rm is a fresh w with w>=0, w*w = X: generalise to the radicand X (identity X*N = |A.R-B|^2)
            name = rm.t.decl().name() if isinstance(rm, Sym) and z3.is_const(rm.t) else None
            if name in ex.defs:
                X = ex.defs[name][1].arg(1)
                r2 = ctx.query("rmsd[N=%d]: radicand * N = |A.R-B|^2 [identity]" % N, p.pc, X * N == dev.t, vacuity=False)
            else:
                r2 = ctx.query("rmsd[N=%d]:sqrt(|A.R-B|^2/N)" % N, p.pc, ((rm * rm * N == dev) & (rm >= 0)).t, ex=ex, vacuity=False)
            ok_args = all(x is y for (a_, b_) in calls for x, y in zip(a_.flat, A.flat)) and all(
                x is y for (a_, b_) in calls for x, y in zip(b_.flat, B.flat))
            ctx.record("reorient[N=%d]:kabsch called with (A,B)" % N, "holds" if ok_args else "counterexample", nontrivial=True)
            if r1.verdict == "cex" or r2.verdict == "cex" or not ok_args:
                rr = np.random.default_rng(1)
                ctx.violation("pts:rmsd", "reorient/rmsd do not use A.R vs B", {"A": rr.normal(size=(N, 3)).tolist(), "B": rr.normal(size=(N, 3)).tolist()}, replay_points)
        del calls[:]
    m.kabsch_rotation_matrix = orig

    # link: |A R - B|^2 = |A|^2 + |B|^2 - 2 tr(R^T A^T B) for orthogonal R  (chain: identity, then R R^T := I)
    N = 3
    A, B = _mat("a", N), _mat("b", N)
    P = _mat("p")
    AR = np.dot(A, Rsym)
    dev = sum((AR[i, j] - B[i, j]) ** 2 for i in range(N) for j in range(3))
    RRt = np.dot(Rsym, Rsym.T)
    tr = sum(np.dot(Rsym.T, np.dot(A.T, B))[i, i] for i in range(3))

    def form(Pm):
        return sum(A[n, i] * Pm[i, j] * A[n, j] for n in range(N) for i in range(3) for j in range(3)) + sum(
            B[n, j] ** 2 for n in range(N) for j in range(3)) - 2 * tr
    ctx.query("link:|AR-B|^2 = sum a(RR^T)a^T + |B|^2 - 2tr(R^T A^T B) [identity]", [], _eq(dev, form(RRt)), vacuity=False)
    Id = np.array([[_I(i, j) for j in range(3)] for i in range(3)], dtype=object)
    ctx.query("link:with RR^T=I this is |A|^2+|B|^2-2tr(R^T A^T B)", [],
              _eq(form(Id), sum(A[n, j] ** 2 + B[n, j] ** 2 for n in range(N) for j in range(3)) - 2 * tr), vacuity=False)

    # ---------------- Dimer.calculate_transform passes centred (pos_b, pos_a) and v_ab = c_b - c_a
    _dimer(ctx, realnum, m)


def _check_path(ctx, ex, p, V, W, S, dv, dw, tag):
    if p.exc is not None:
        ctx.harness_error("%s raised %r symbolically" % (tag, p.exc))
        return
    R = p.value
    # which sign pattern e gives R == V diag(e) W as polynomials?
    match = None
    for e in itertools.product((1, -1), repeat=3):
        cand = np.dot(np.dot(V, np.diag(e).astype(object)), W)
        r = ctx.query("%s:path%s:R = V.diag%s.W [identity]" % (tag, p.decisions, list(e)), [], _all_eq(R, cand), vacuity=False, timeout=20)
        if r.verdict == "holds":
            match = e
            break
    sign_neg = ctx.query("%s:path%s: det(v)det(w) = -1 on this path" % (tag, p.decisions), p.pc, (dv * dw == -1).t, ex=ex)
    sign_pos = ctx.query("%s:path%s: det(v)det(w) = +1 on this path" % (tag, p.decisions), p.pc, (dv * dw == 1).t, ex=ex)
    d = -1 if sign_neg.holds else (1 if sign_pos.holds else None)
    good = match is not None and d is not None and tuple(match) == (1, 1, d)
    ctx.record("%s:path%s: sign pattern %s is (1,1,sign det v det w = %s)" % (tag, p.decisions, match, d),
               "holds" if good else ("unknown" if d is None else "counterexample"), nontrivial=True)
    if d is None:
        ctx.mark_inconclusive("%s:path%s" % (tag, p.decisions), "sign of det(v)det(w) not determined by the path condition")
    if good:
        return
    # counterexample search on ground instances of the contract: pc /\ V=V0 /\ W=W0 /\ S=S0 /\ tr(R^T H) < optimum
    cov = np.dot(np.dot(V, np.diag(S)), W)
    tr = sum(np.dot(R.T, cov)[i, i] for i in range(3))
    candidates = []
    for k, (V0, W0, s0) in enumerate(GROUND):
        d0 = int(round(float(np.linalg.det(np.array(V0, float)) * np.linalg.det(np.array(W0, float)))))
        inst = [V[i, j].t == z3.RealVal(V0[i][j]) for i in range(3) for j in range(3)]
        inst += [W[i, j].t == z3.RealVal(W0[i][j]) for i in range(3) for j in range(3)]
        inst += [S[i].t == s0[i] for i in range(3)]
        inst += [dv.t == int(round(float(np.linalg.det(np.array(V0, float))))), dw.t == int(round(float(np.linalg.det(np.array(W0, float)))))]
        opt = s0[0] + s0[1] + d0 * s0[2]
        RtR = np.dot(R.T, R)
        bad = z3.Or((tr < opt).t, z3.Not(_all_eq(RtR, np.eye(3).astype(int).astype(object))), (det3(R) != 1).t)
        r, mdl = ctx.witness("%s:path%s:ground-instance-%d violates optimality" % (tag, p.decisions, k), p.pc + inst + [bad], ex=ex, expect=None)
        if r == "sat":
            H = np.array(V0, float) @ np.diag([float(x) for x in s0]) @ np.array(W0, float)
            data = {"A": np.eye(3).tolist(), "B": H.tolist()}
            candidates.append(data)
    # LAPACK is free to return any valid factorisation, so a symbolic counterexample (some valid (v,s,w)) is replayed on
    # several concrete covariances of that family; one reproduction on the real code suffices
    reproduced = [d for d in candidates if replay_points(d)[0]]
    if reproduced:
        ctx.violation("pts:kabsch", "returned rotation is not the optimal proper rotation", reproduced[0], replay_points)
        return
    if candidates:
        ctx.violation("pts:kabsch", "returned rotation is not the optimal proper rotation", candidates[0], replay_points)
        return
    ctx.mark_inconclusive("%s:path%s" % (tag, p.decisions), "sign pattern not of the optimal form but no ground instance violates optimality")


def _lemmas(ctx, V, W, S):
    """Generic facts about R = V.diag(e).W used by the per-path argument, each as solver queries."""
    P, Q = _mat("p"), _mat("q")
    Id = np.array([[_I(i, j) for j in range(3)] for i in range(3)], dtype=object)
    for e in ((1, 1, 1), (1, 1, -1)):
        E = np.diag(e).astype(object)
        R = np.dot(np.dot(V, E), W)
        cov = np.dot(np.dot(V, np.diag(S)), W)
        tr = sum(np.dot(R.T, cov)[i, i] for i in range(3))
        VtV, WWt, WtW = np.dot(V.T, V), np.dot(W, W.T), np.dot(W.T, W)

        def trform(Pm, Qm):
            return sum(e[k] * Pm[k, a] * S[a] * Qm[a, k] for k in range(3) for a in range(3))
        ctx.query("lemma e=%s: tr(R^T.V S W) = sum e_k (V^T V)_ka s_a (W W^T)_ak [identity]" % (e,), [], _eq(tr, trform(VtV, WWt)), vacuity=False)
        ctx.query("lemma e=%s: with V^T V = W W^T = I this is sum e_k s_k" % (e,), [], _eq(trform(Id, Id), sum(e[k] * S[k] for k in range(3))), vacuity=False)
        RtR = np.dot(R.T, R)

        def rtrform(Pm):
            return np.dot(np.dot(np.dot(np.dot(W.T, E), Pm), E), W)
        ctx.query("lemma e=%s: R^T R = W^T E (V^T V) E W [identity]" % (e,), [], _all_eq(RtR, rtrform(VtV)), vacuity=False)
        ctx.query("lemma e=%s: with V^T V = I this is W^T W (= I by contract)" % (e,), [], _all_eq(rtrform(Id), WtW), vacuity=False)
        ctx.query("lemma e=%s: det R = e1 e2 e3 det V det W [identity]" % (e,), [], _eq(det3(R), e[0] * e[1] * e[2] * det3(V) * det3(W)), vacuity=False)
    # upper bound: for every rotation M(q) (unit quaternion) and ordered s:  sum s_i (d M)_ii <= s1+s2+d s3
    a, b, c, d_ = (z3.Real(n) for n in ("qa", "qb", "qc", "qd"))
    s1, s2, s3 = (x.t for x in S)
    M11 = a * a + b * b - c * c - d_ * d_
    M22 = a * a - b * b + c * c - d_ * d_
    M33 = a * a - b * b - c * c + d_ * d_
    hyp = [a * a + b * b + c * c + d_ * d_ == 1, s1 >= s2, s2 >= s3, s3 >= 0]
    ctx.query("lemma: proper M: sum s_i M_ii <= s1+s2+s3 (all unit quaternions)", hyp, s1 * M11 + s2 * M22 + s3 * M33 <= s1 + s2 + s3)
    ctx.query("lemma: improper M=-Rot(q): sum s_i M_ii <= s1+s2-s3 (all unit quaternions)", hyp, -(s1 * M11 + s2 * M22 + s3 * M33) <= s1 + s2 - s3)
    # the quaternion parametrisation covers SO(3): Rot(q) is orthogonal with det 1 (identity modulo |q|=1 via n:=|q|^2)
    ctx.note("every orthogonal 3x3 matrix with determinant d is d.Rot(q) for a unit quaternion q (textbook step, not machine-checked)")


def _dimer(ctx, realnum, m):
    from chmpy.core import dimer as realdimer
    captured = []
    Rret = np.eye(3)
    orig = realnum.kabsch_rotation_matrix

    def rec(A, B):
        captured.append((A, B))
        return Rret
    N = 3
    pa, pb = _mat("pa", N), _mat("pb", N)

    class FakeMol:
        def __init__(self, pos):
            self.positions = pos
            self.atomic_numbers = np.array([6, 1, 8])
            self.properties = {}

        def __len__(self):
            return N

        @property
        def centroid(self):
            return sum(self.positions[i] for i in range(N)) / N

        @property
        def center_of_mass(self):
            # the real masses of the tabulated elements, as exact rationals of their printed values
            from chmpy.core.element import Element
            ms = [Fraction(str(Element[int(z)].mass)) for z in self.atomic_numbers]
            return sum(self.positions[i] * ms[i] for i in range(N)) / sum(ms)
    d = realdimer.Dimer.__new__(realdimer.Dimer)
    d.a, d.b, d.frac_shift = FakeMol(np.array(pa, dtype=object)), FakeMol(np.array(pb, dtype=object)), None
    from chmpy.core.molecule import Molecule
    ctx.encode(Molecule.centroid.fget)
    ctx.stub("Molecule.centroid = arithmetic mean of positions (checked against the real property on concrete input)")
    mm = Molecule.from_arrays(np.array([6, 1, 8]), np.array([[0., 0, 1], [2, 0, 0], [0, 3, 0]]))
    ctx.fidelity_check("Molecule.centroid is the mean position", np.allclose(mm.centroid, mm.positions.mean(axis=0)))
    # ... also after the molecule was moved in place or copied (the stub above stands for the centroid of the molecule as it is now)
    gd = {"Z": [6, 1, 8, 7], "pos_a": [[0.0, 0.1, 1.0], [2.0, 0.0, 0.3], [0.2, 3.0, 0.0], [1.0, 1.0, -2.0]],
          "pos_b": [[5.0, 1.1, 1.0], [5.3, 3.0, 0.9], [8.0, 1.0, 1.2], [6.0, 2.1, -1.0]]}
    gr, gdet = replay_dimer(gd)
    ctx.record("dimer: molecules used before and then moved in place -- centroid is that of the current positions, alignment optimal (ground instance, real classes)",
               "holds" if not gr else "counterexample", nontrivial=True, method="ground instances")
    if gr:
        ctx.violation("dimer:moved", "Dimer / Molecule.centroid on molecules moved in place: %s" % gdet[0], gd, replay_dimer)
    Hs = []

    def svd_cap(H):
        Hs.append(H)
        return np.eye(3).astype(object), np.array([1, 1, 1], dtype=object), np.eye(3).astype(object)
    m.np.linalg._svd_hook = svd_cap
    m.np.linalg.det = lambda M: 1
    realnum.kabsch_rotation_matrix = m.kabsch_rotation_matrix
    try:
        ex = Explorer()
        paths = ex.run(lambda: realdimer.Dimer.calculate_transform(d))
    finally:
        realnum.kabsch_rotation_matrix = orig
    ctx.add_paths(ex)
    ca = sum(pa[i] for i in range(N)) / N
    cb = sum(pb[i] for i in range(N)) / N
    bad = False
    for p in paths:
        if p.exc is not None or not Hs:
            ctx.harness_error("Dimer.calculate_transform symbolic run failed: %r" % (p.exc,))
            return
        want = np.dot((pb - cb).T, pa - ca)
        r1 = ctx.query("dimer: covariance given to the SVD = (pos_b - c_b)^T (pos_a - c_a) [identity]", [], _all_eq(np.asarray(Hs[0], dtype=object), want), vacuity=False)
        R, t = d.transform_ab
        r3 = ctx.query("dimer: translation = centroid_b - centroid_a", [], z3.And([_eq(t[k], (cb - ca)[k]) for k in range(3)]), vacuity=False)
        bad = any(r.verdict == "cex" for r in (r1, r3))
    if bad:
        rr = np.random.default_rng(3)
        pa0 = rr.normal(size=(4, 3)) + 5
        Q = np.linalg.qr(rr.normal(size=(3, 3)))[0]
        Q *= np.sign(np.linalg.det(Q))
        pb0 = (pa0 - pa0.mean(axis=0)) @ Q + np.array([3.0, -2.0, 9.0]) + 0.05 * rr.normal(size=(4, 3))
        ctx.violation("dimer:args", "Dimer.calculate_transform does not align the centred molecules",
                      {"Z": [6, 1, 8, 7], "pos_a": pa0.tolist(), "pos_b": pb0.tolist()}, replay_dimer)
