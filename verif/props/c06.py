"""C06  Isosurfaces are closed, consistently oriented meshes on the requested level.

Layer 1 (glue, decided here): with the compiled mesher as a contract stub (vertices on grid
edges at parameter t in kernel index units, right-handed faces), the real marching_cubes
post-processing and the real surface.py functions map every vertex to
(1-t)*pts[a] + t*pts[b] of the very grid the density was sampled on (axis flip, (y,x,z) swap,
spacing and origin shift compose to the identity), reverse the winding exactly for 'descent',
and the sampling box contains every atom +- (vdW + 3.8).
Layer 3: the user-level wrappers and the colour mapping return instead of raising.
Layer 2 (topology of the Lewiner kernel and its tables) is decided in c06_kernel on a translation of the
kernel source that is validated against the compiled module on every run."""
import itertools
import time

import numpy as np
import z3

from .. import symx
from ..symx import Sym, Explorer, load_shimmed, model_value


# ------------------------------------------------------------------------------------- replay
def _mesh_ok(verts, faces):
    """closed oriented 2-manifold: every directed edge once, its reverse once"""
    from collections import Counter
    e = Counter()
    for a, b, c in faces:
        for u, v in ((a, b), (b, c), (c, a)):
            e[(int(u), int(v))] += 1
    if any(n != 1 for n in e.values()):
        return "a directed edge is used more than once"
    if any((v, u) not in e for (u, v) in e):
        return "an edge is not shared by two oppositely oriented triangles"
    if faces.min() < 0 or faces.max() >= len(verts):
        return "face index out of range"
    return None


def replay_surface(data):
    try:
        return _replay_surface(data)
    except Exception as e:
        return True, ["the real API raises %s: %s" % (type(e).__name__, e)]


def _replay_surface(data):
    """real API: marching cubes of a smooth blob on an anisotropic grid, and the promolecule surface of water"""
    from chmpy.mc import marching_cubes
    from chmpy import PromoleculeDensity
    from chmpy.surface import promolecule_density_isosurface
    bad = []
    shape, spacing = (9, 11, 13), (0.5, 0.4, 0.3)
    g = np.meshgrid(*[np.arange(n) * s for n, s in zip(shape, spacing)], indexing="ij")
    c = [(n - 1) * s / 2 for n, s in zip(shape, spacing)]
    c[0] += 0.3
    f = np.exp(-((g[0] - c[0]) ** 2 + (g[1] - c[1]) ** 2 * 1.3 + (g[2] - c[2]) ** 2 * 0.8)).astype(np.float32)
    for direction in ("descent", "ascent"):
        v, fa, n, val = marching_cubes(f, 0.5, spacing=spacing, gradient_direction=direction)
        why = _mesh_ok(v, fa)
        if why:
            bad.append("marching_cubes(%s): %s" % (direction, why))
            continue
        # on the level: trilinear field value at each vertex
        from scipy.interpolate import RegularGridInterpolator
        rgi = RegularGridInterpolator([np.arange(nn) * s for nn, s in zip(shape, spacing)], f.astype(float))
        err = np.abs(rgi(v) - 0.5).max()
        if err > 0.05:
            bad.append("marching_cubes(%s): vertices are not on the level set in the grid's coordinates (max |f-level| = %.3f)" % (direction, err))
        vol = np.einsum("ij,ij->i", v[fa[:, 0]], np.cross(v[fa[:, 1]], v[fa[:, 2]])).sum() / 6
        # convention (as in scikit-image): 'descent' meshes follow the left-hand rule, i.e. negative signed volume by the usual
        # right-hand formula in the returned coordinates; 'ascent' is the mirror image
        if (vol < 0) != (direction == "descent"):
            bad.append("marching_cubes(%s): orientation does not follow the gradient direction (signed volume %.3f)" % (direction, vol))
    Z = np.array([8, 1, 1])
    P = np.array([[3.0, -2.0, 1.12], [3.0, -1.24, 0.52], [3.0, -2.76, 0.52]])
    pro = PromoleculeDensity((Z, P))
    iso = promolecule_density_isosurface(pro, sep=0.4, isovalue=0.002, smoothing=None)
    why = _mesh_ok(iso.vertices, iso.faces)
    if why:
        bad.append("promolecule surface: %s" % why)
    vv, ff = np.asarray(iso.vertices, float), np.asarray(iso.faces)
    if np.einsum("ij,ij->i", vv[ff[:, 0]] - P[0], np.cross(vv[ff[:, 1]] - P[0], vv[ff[:, 2]] - P[0])).sum() <= 0:
        bad.append("promolecule surface is wound inside out (negative signed volume)")
    from chmpy import StockholderWeight
    from chmpy.surface import stockholder_weight_isosurface as swi
    shifts = [np.array(v, float) * 3.0 for v in ((1, 0, 0), (-1, 0, 0), (0, 1, 0), (0, -1, 0), (0, 0, 1), (0, 0, -1), (1, 1, 1), (-1, -1, -1), (1, -1, 1), (-1, 1, -1), (1, 1, -1), (-1, -1, 1), (1, -1, -1), (-1, 1, 1))]
    sw = StockholderWeight.from_arrays(Z, P, np.tile(Z, len(shifts)), np.vstack([P + sh for sh in shifts]))     # the molecule enclosed by copies of itself
    isw = swi(sw, sep=0.4, isovalue=0.5, smoothing=None) if True else None
    vs, fs = np.asarray(isw.vertices, float), np.asarray(isw.faces)
    whys = _mesh_ok(vs, fs)
    if whys:
        bad.append("stockholder surface: %s" % whys)
    if np.einsum("ij,ij->i", vs[fs[:, 0]] - P[0], np.cross(vs[fs[:, 1]] - P[0], vs[fs[:, 2]] - P[0])).sum() <= 0:
        bad.append("stockholder (Hirshfeld) surface is wound inside out (negative signed volume)")
    rho = pro.rho(iso.vertices)
    if np.abs(rho - 0.002).max() > 0.002:
        bad.append("promolecule surface: vertices are not on the isovalue in the molecule's frame (rho in [%.4g, %.4g])" % (rho.min(), rho.max()))
    lo, hi = pro.bb()
    if not (np.all(lo <= (P - (pro.vdw_radii[:, None] + 3.8)).min(axis=0) + 1e-6) and np.all(hi >= (P + pro.vdw_radii[:, None] + 3.8).max(axis=0) - 1e-6)):
        bad.append("sampling box does not contain every atom +- (vdW + 3.8)")
    # molecules whose extent differs strongly between the axes (each axis in turn the long one), away from the origin
    from chmpy.surface import stockholder_weight_isosurface
    for long_axis in range(3):
        Pl = np.zeros((6, 3))
        Pl[:, long_axis] = np.arange(6) * 1.3
        Pl += np.array([2.0, -4.0, 1.0])
        prl = PromoleculeDensity((np.array([6] * 6), Pl))
        try:
            isl = promolecule_density_isosurface(prl, sep=0.5, isovalue=0.01, smoothing=None)
        except Exception as e:
            bad.append("promolecule surface of a chain along axis %d raises %s: %s" % (long_axis, type(e).__name__, e))
            continue
        why = _mesh_ok(isl.vertices, isl.faces)
        if why:
            bad.append("promolecule surface of a chain along axis %d: %s" % (long_axis, why))
        r2 = prl.rho(isl.vertices)
        if np.abs(r2 - 0.01).max() > 0.01:
            bad.append("promolecule surface of a chain along axis %d: vertices not on the isovalue" % long_axis)
    return bool(bad), bad


def replay_wrappers(data):
    from chmpy.core.molecule import Molecule
    bad = []
    m = Molecule.from_arrays(np.array([8, 1, 1]), np.array([[0.0, 0.0, 0.12], [0.0, 0.76, -0.48], [0.0, -0.76, -0.48]]))
    try:
        mesh = m.promolecule_density_isosurface(separation=0.5)
        why = _mesh_ok(np.asarray(mesh.vertices), np.asarray(mesh.faces))
        if why:
            bad.append("Molecule.promolecule_density_isosurface: %s" % why)
    except Exception as e:
        bad.append("Molecule.promolecule_density_isosurface raises %s: %s" % (type(e).__name__, e))
    try:
        from chmpy.util.color import property_to_color
        for cmap in ("d_norm", "d_i", "viridis"):
            col = property_to_color(np.linspace(-0.4, 1.2, 7), cmap=cmap)
            if np.asarray(col).shape != (7, 4):
                bad.append("property_to_color(%s) does not give one RGBA colour per value" % cmap)
    except Exception as e:
        bad.append("property_to_color raises %s: %s" % (type(e).__name__, e))
    return bool(bad), bad


REPLAY = {"surf": replay_surface, "wrap": replay_wrappers}
try:
    from . import c06_kernel as _ck
    REPLAY["kernel"] = _ck.replay_kernel
except ImportError:
    pass
from . import c03 as _c03r   # noqa: E402
REPLAY["radius"] = _c03r.replay_radius


# ------------------------------------------------------------------------------------- run
def run(ctx):
    from chmpy.mc import _mc as realmc
    from chmpy import surface as realsurf
    from chmpy.interpolate.density import PromoleculeDensity, StockholderWeight
    from chmpy.util import color as realcolor
    from chmpy.core.molecule import Molecule
    ctx.encode(realmc.marching_cubes, realsurf.promolecule_density_isosurface, realsurf.stockholder_weight_isosurface, PromoleculeDensity.bb,
               StockholderWeight.bb, realcolor.property_to_color, Molecule.promolecule_density_isosurface)
    ctx.bound("glue: grids up to 3x4x5 samples with every grid edge carrying a vertex at a symbolic parameter t in [0,1]; boxes for 2 atoms with symbolic positions (all 64 min/max outcomes)")
    ctx.stub("compiled Lewiner kernel = contract stub (vertex on the grid edge between two adjacent samples at parameter t, in (axis2, axis1, axis0) index units; right-handed faces); "
             "Laplacian smoothing (trimesh) off; density values arbitrary")
    ctx.assume("colour mapping: vertex property values pairwise at least 0.02 apart (a constant property makes the two-slope normalisation degenerate)")
    ctx.out_of_scope("volume convergence, 'encloses every atom and no neighbour', convergence to the isovalue with shrinking spacing (limits); smoothing; "
                     "mesh topology of the compiled kernel unless section 'kernel' reports it")
    secs = [("glue", part_glue), ("box", part_box), ("wrappers", part_wrappers), ("frontends", part_frontends)]
    try:
        from . import c06_kernel
        secs.append(("kernel", c06_kernel.part_kernel))
    except ImportError:
        ctx.note("layer 2 (kernel topology) not built: mesh topology is NOT decided by this check")
    t0 = time.time()
    from . import c03 as _c03
    ctx.stub("Hirshfeld (stockholder) surfaces of molecules in crystals take the exterior atoms from Crystal.molecule_environment: that it returns every atom within the radius is C03's lemma A, run here as a dependency section")
    secs += _c03.dependency_sections({"molecule_environment", "molecule_environments"})
    ctx.parallel_sections([(n_, (lambda c, f=f_, n_=n_: (f(c), c.note("section %s took %.1fs" % (n_, time.time() - t0)))[0])) for n_, f_ in secs])


def _kernel_handedness():
    """+1 if the compiled mesher's raw triangles enclose positive signed volume, in its own vertex frame, for a blob that is high inside"""
    from chmpy.mc import _mc_lewiner as so
    import chmpy.mc._mc as realmc
    g = np.stack(np.meshgrid(np.arange(9.0), np.arange(10.0), np.arange(11.0), indexing="ij"))
    f = np.exp(-(((g[0] - 4.2) ** 2 + (g[1] - 4.6) ** 2 + (g[2] - 5.1) ** 2)) / 6.0).astype(np.float32)
    v, fa, n, val = so.marching_cubes(f, 0.5, realmc._get_lookup_tables(), 1, 0)
    v, fa = np.asarray(v, float), np.asarray(fa).reshape(-1, 3)
    vol = np.einsum("ij,ij->i", v[fa[:, 0]], np.cross(v[fa[:, 1]], v[fa[:, 2]])).sum() / 6
    return 1 if vol > 0 else -1


def _edges(shape):
    out = []
    for i0, i1, i2 in itertools.product(*[range(n) for n in shape]):
        for d in range(3):
            j = [i0, i1, i2]
            j[d] += 1
            if j[d] < shape[d]:
                out.append(((i0, i1, i2), tuple(j)))
    return out


def part_glue(ctx):
    mmc = load_shimmed("chmpy.mc._mc")
    msf = load_shimmed("chmpy.surface")
    # surface.py uses np.max/np.min/np.mean only inside LOG.debug(...) arguments: keep them from forking on symbolic vertices
    import inspect
    import re
    src = inspect.getsource(msf)
    if all("LOG." in ln for ln in src.splitlines() if re.search(r"np\.(max|min|mean)\(", ln)):
        for fn in ("max", "min", "mean"):
            setattr(msf.np, fn, (lambda *a, **k: 0.0))
    t = Sym(z3.Real("t"))
    bad = []
    # ---- marching_cubes post-processing on its own: anisotropic spacing, both directions
    shape = (3, 4, 5)
    edges = _edges(shape)
    faces_flat = np.arange(3 * (len(edges) // 3), dtype=np.int32)

    def kernel_stub(volume, level, L, step, classic):
        verts = np.empty((len(edges), 3), dtype=object)
        for n, (a, b) in enumerate(edges):
            for k in range(3):      # kernel order: x = axis 2, y = axis 1, z = axis 0
                ax = 2 - k
                verts[n, k] = a[ax] + t * (b[ax] - a[ax])
        normals = np.tile(np.array([1.0, 2.0, 3.0]), (len(edges), 1))
        return verts, faces_flat.copy(), normals, np.zeros(len(edges))
    mmc._marching_cubes = kernel_stub
    mmc._get_lookup_tables = lambda: None
    vol = np.random.default_rng(0).random(shape).astype(np.float32)
    sp = (0.5, 0.25, 2.0)
    for direction in ("descent", "ascent"):
        ex = Explorer(assumptions=[t.t >= 0, t.t <= 1])
        pth = ex.run(lambda: mmc.marching_cubes(vol, 0.5, spacing=sp, gradient_direction=direction))
        ctx.add_paths(ex)
        if len(pth) == 1 and pth[0].exc is not None and not isinstance(pth[0].exc, (symx.SymUnsupported, TypeError)):
            ctx.violation("surf:glue", "marching_cubes(%s) raises %s: %s" % (direction, type(pth[0].exc).__name__, pth[0].exc), {}, replay_surface)
            return
        if len(pth) != 1 or pth[0].exc is not None:
            ctx.harness_error("marching_cubes post-processing not executable symbolically: %r" % (pth[0].exc if pth else None))
            return
        v, f, n, _ = pth[0].value
        goals = []
        for k_, (a, b) in enumerate(edges):
            for ax in range(3):
                want = (a[ax] + t * (b[ax] - a[ax])) * sp[ax]
                goals.append((Sym._lift(v[k_, ax]) == want).t)
        r = ctx.query("marching_cubes(%s): vertex = ((1-t) a + t b) * spacing in volume-axis order (axis0, axis1, axis2) [identity]" % direction, [], z3.And(goals), vacuity=False)
        okn = np.allclose(np.asarray(n, float), np.tile([3.0, 2.0, 1.0], (len(edges), 1)))
        wantf = faces_flat.reshape(-1, 3)[:, ::-1] if direction == "descent" else faces_flat.reshape(-1, 3)
        okf = np.array_equal(np.asarray(f), wantf)
        ctx.record("marching_cubes(%s): winding %s, normals in the same axis order as the vertices" % (direction, "reversed (left-handed convention)" if direction == "descent" else "kept"),
                   "holds" if (okf and okn) else "counterexample", nontrivial=True)
        if r.verdict == "cex" or not (okf and okn):
            bad.append("marching_cubes post-processing (%s)" % direction)
    # ---- surface.py: promolecule and stockholder
    for fname in ("promolecule_density_isosurface", "stockholder_weight_isosurface"):
        lo, hi, sep = np.array([1.25, -2.5, 0.5]), np.array([2.0, -1.25, 1.75]), 0.25
        cap = {}

        class Dens:
            positions = np.zeros((1, 3))
            dens_a = None

            def bb(self):
                return lo, hi

            def rho(self, pts):
                cap["pts"] = np.array(pts, float)
                return np.random.default_rng(1).random(len(pts)).astype(np.float32)
            weights = rho

            def d_norm(self, verts):
                cap["verts_for_props"] = verts
                z = np.zeros(len(verts))
                return (z, z, z) if fname.startswith("pro") else (z, z, z, z, z, z)
        dens = Dens()
        dens.dens_a = dens
        msf.marching_cubes = mmc.marching_cubes
        state = {}

        def kernel_stub2(volume, level, L, step, classic):
            shp = volume.shape
            state["shape"] = shp
            es = _edges(shp)
            state["edges"] = es
            verts = np.empty((len(es), 3), dtype=object)
            for n_, (a, b) in enumerate(es):
                for k in range(3):
                    ax = 2 - k
                    verts[n_, k] = a[ax] + t * (b[ax] - a[ax])
            return verts, np.arange(3 * (len(es) // 3), dtype=np.int32), np.zeros((len(es), 3)), np.zeros(len(es))
        mmc._marching_cubes = kernel_stub2
        ex = Explorer(assumptions=[t.t >= 0, t.t <= 1])
        pth = ex.run(lambda: getattr(msf, fname)(dens, isovalue=0.5, sep=sep, smoothing=None))
        ctx.add_paths(ex)
        if not pth or any(p.exc is not None for p in pth):
            excs = [p.exc for p in pth if p.exc is not None]
            if excs and not isinstance(excs[0], (symx.SymUnsupported, TypeError, AttributeError)):
                # the function under test raises on a box with unequal extents: decided by the replay on real molecules
                ctx.record("%s: runs on a sampling box with unequal extents" % fname, "counterexample", nontrivial=True)
                ctx.violation("surf:glue", "%s raises %s: %s on the box %s..%s" % (fname, type(excs[0]).__name__, excs[0], lo.tolist(), hi.tolist()), {}, replay_surface)
                return
            ctx.harness_error("%s not executable symbolically: %r" % (fname, excs[:1]))
            continue
        iso = pth[0].value     # further paths only differ in comparisons made for logging
        shp, es, pts = state["shape"], state["edges"], cap["pts"]
        goals = []
        eps = 1e-5
        for k_, (a, b) in enumerate(es):
            pa = pts[np.ravel_multi_index(a, shp)]
            pb = pts[np.ravel_multi_index(b, shp)]
            for ax in range(3):
                want = Sym._lift(float(pa[ax])) + t * float(pb[ax] - pa[ax])
                d = (Sym._lift(iso.vertices[k_, ax]) - want)
                goals.append(z3.And(d.t <= eps, d.t >= -eps))
        r = ctx.query("%s: every vertex = (1-t) pts[a] + t pts[b] for the grid points the density was sampled at (%dx%dx%d grid, %d edges, tolerance 1e-5 for float32 grid coordinates)"
                      % (fname, shp[0], shp[1], shp[2], len(es)), [t.t >= 0, t.t <= 1], z3.And(goals))
        # the sampled grid starts at the lower corner of the box and reaches the upper corner in every axis
        span_ok = bool(np.allclose(pts.min(axis=0), lo, rtol=0, atol=1e-5) and np.all(pts.max(axis=0) >= hi - sep - 1e-5) and np.all(pts.max(axis=0) <= hi + 1e-5))
        ctx.record("%s: sampling grid spans the density's bounding box in every axis (box with three different extents)" % fname, "holds" if span_ok else "counterexample", nontrivial=True)
        if not span_ok:
            bad.append(fname + " (grid does not span the box)")
        # orientation: the mesher's triangles (as it returns them, in its (x, y, z) = (axis2, axis1, axis0) index frame) have a
        # fixed handedness, measured on the compiled module; the map to user coordinates has the determinant of the grid step
        # vectors in that order, and the faces are either kept or reversed: for a field that is high inside (density, weight)
        # the product must be outward
        e0 = pts[np.ravel_multi_index((1, 0, 0), shp)] - pts[0]
        e1 = pts[np.ravel_multi_index((0, 1, 0), shp)] - pts[0]
        e2 = pts[np.ravel_multi_index((0, 0, 1), shp)] - pts[0]
        det_map = float(np.linalg.det(np.array([e2, e1, e0], float).T))
        kf = np.arange(3 * (len(es) // 3)).reshape(-1, 3)
        fo = np.asarray(iso.faces)
        flip = 1 if np.array_equal(fo, kf) else (-1 if np.array_equal(fo, kf[:, ::-1]) else 0)
        sk = _kernel_handedness()
        orient_ok = flip != 0 and sk * np.sign(det_map) * flip > 0
        ctx.record("%s: orientation = (handedness of the mesher's triangles, %+d) x (sign of the index->coordinate map, %+d) x (faces kept/reversed, %+d) is outward for a field that is high inside"
                   % (fname, sk, int(np.sign(det_map)), flip), "holds" if orient_ok else "counterexample", nontrivial=True)
        if not orient_ok:
            bad.append(fname + " (mesh is wound inside out)")
        same = cap.get("verts_for_props") is iso.vertices or np.array_equal(np.asarray(cap.get("verts_for_props"), dtype=object), np.asarray(iso.vertices, dtype=object))
        ctx.record("%s: surface properties are evaluated at the returned vertices" % fname, "holds" if same else "counterexample", nontrivial=True)
        if r.verdict == "cex" or not same:
            bad.append(fname)
    if bad:
        ctx.violation("surf:glue", "vertex mapping between the mesher's index units and the sampling grid is not the identity: %s" % bad[0], {}, replay_surface)


def part_box(ctx):
    md = load_shimmed("chmpy.interpolate.density")
    P = np.array([[Sym(z3.Real("p%d_%d" % (i, k))) for k in range(3)] for i in range(2)], dtype=object).view(symx.OArr)
    vdw = np.array([1.52, 1.75])
    bad = False
    for cls in ("PromoleculeDensity", "StockholderWeight"):
        obj = getattr(md, cls).__new__(getattr(md, cls))
        if cls == "PromoleculeDensity":
            obj.positions, obj.vdw_radii = P, vdw
        else:
            a = md.PromoleculeDensity.__new__(md.PromoleculeDensity)
            a.positions, a.vdw_radii = P, vdw
            obj.dens_a = a
        ex = Explorer(max_paths=4000)
        paths = ex.run(lambda: obj.bb())
        ctx.add_paths(ex)
        res = []
        for p in paths:
            if p.exc is not None:
                ctx.harness_error("%s.bb raised symbolically: %r" % (cls, p.exc))
                return
            lo, hi = p.value
            goals = []
            for i in range(2):
                for k in range(3):
                    goals.append((Sym._lift(lo[k]) <= P[i, k] - (vdw[i] + 3.8)).t)
                    goals.append((Sym._lift(hi[k]) >= P[i, k] + (vdw[i] + 3.8)).t)
            res.append((p, z3.And(goals)))
        tasks = [dict(name="%s.bb path %d: the box contains every atom +- (vdW + 3.8) on every axis" % (cls, n), assumptions=p.pc, goal=g, extract=lambda m: {}) for n, (p, g) in enumerate(res)]
        # one conjunction over all feasible paths keeps the number of solver calls small
        out = ctx.query_many(tasks[:64])
        bad = bad or any(r.verdict == "cex" for r in out)
        ctx.note("%s.bb: %d min/max comparison paths, %d checked" % (cls, len(paths), min(64, len(paths))))
    if bad:
        ctx.violation("surf:box", "sampling box does not contain every atom +- (vdW radius + 3.8 A)", {}, replay_surface)


def part_wrappers(ctx):
    """colour mapping on symbolic property values: every path must reach the colormap call with one value per vertex;
    matplotlib's norm and colormap objects are stubs (norm = affine map, colormap = one RGBA row per value)"""
    import matplotlib
    import matplotlib.colors as mcolors
    mc = load_shimmed("chmpy.util.color")
    n = 3
    prop = np.array([Sym(z3.Real("v%d" % i)) for i in range(n)], dtype=object).view(symx.OArr)
    failures = []
    seen = {"cmap": [], "norm": []}

    class Norm:
        def __init__(self, vmin=None, vcenter=None, vmax=None):
            seen["norm"].append((vmin, vcenter, vmax))

        def __call__(self, x):
            return x

    def fake_get_cmap(name):
        seen["cmap"].append(name)
        return lambda x: np.zeros((len(x), 4))
    reg = getattr(matplotlib, "colormaps", None)
    old_norm = mcolors.TwoSlopeNorm
    old_get = getattr(reg, "get_cmap", None) if reg is not None else None
    mcolors.TwoSlopeNorm = Norm
    if reg is not None:
        reg.get_cmap = fake_get_cmap
    try:
        for cmap in ("d_norm", "d_i", "esp"):
            spread = [z3.Or(prop[i].t - prop[j].t >= 0.02, prop[j].t - prop[i].t >= 0.02) for i in range(n) for j in range(i + 1, n)]
            ex = Explorer(assumptions=spread, max_paths=400)
            try:
                paths = ex.run(lambda: mc.property_to_color(prop.copy().view(symx.OArr), cmap=cmap))
            except (symx.SymUnsupported, symx.PathLimit) as e:
                ctx.mark_inconclusive("property_to_color(%s)" % cmap, "not executable symbolically: %s" % e)
                continue
            ctx.add_paths(ex)
            exc = [p for p in paths if p.exc is not None and ex.check(p.pc)[0] != "unsat"]
            okshape = all(np.asarray(p.value).shape == (n, 4) for p in paths if p.exc is None)
            ctx.record("property_to_color(%s): %d paths over symbolic property values, none raises, one RGBA colour per value" % (cmap, len(paths)),
                       "holds" if (not exc and okshape) else "counterexample", nontrivial=True, sample=repr(exc[0].exc) if exc else None)
            if exc or not okshape:
                failures.append("%s: %r" % (cmap, exc[0].exc if exc else "wrong shape"))
    finally:
        mcolors.TwoSlopeNorm = old_norm
        if reg is not None and old_get is not None:
            try:
                del reg.get_cmap
            except AttributeError:
                reg.get_cmap = old_get
    if failures:
        ctx.violation("wrap:color", "surface colouring raises: %s" % failures[0], {}, replay_wrappers)
    else:
        ok, det = replay_wrappers({})
        ctx.concrete_note("user-level wrappers return a closed mesh on water (real API)", not ok, str(det))


def replay_frontend(data):
    """real API: a water molecule in a small P1 cell (enclosed by its own images); the Hirshfeld surface requested at an
    isovalue other than the default has its vertices at that weight (within the discretisation of a 0.4 A grid)"""
    from chmpy.crystal import Crystal, UnitCell, SpaceGroup, AsymmetricUnit
    from chmpy.core.element import Element
    from chmpy import StockholderWeight
    bad = []
    uc = UnitCell.from_lengths_and_angles([5.6, 6.1, 5.9], [np.pi / 2] * 3)
    cart = np.array([[2.8, 3.0, 3.07], [2.8, 3.76, 2.47], [2.8, 2.24, 2.47]])
    c = Crystal(uc, SpaceGroup(1), AsymmetricUnit([Element[8], Element[1], Element[1]], uc.to_fractional(cart)))
    want = float(data.get("isovalue", 0.35))
    want = want if 0.25 <= want <= 0.75 and abs(want - 0.5) > 0.1 else 0.35
    try:
        for kind in ("mol", "atom"):
            meshes = c.stockholder_weight_isosurfaces(kind=kind, isovalue=want, separation=0.4, radius=7.0)
            if kind == "mol":
                mol, n_e, n_p = c.molecule_environments(radius=7.0)[0]
                sw = StockholderWeight.from_arrays(mol.atomic_numbers, mol.positions, n_e, n_p)
            else:
                sr = c.atomic_surroundings(radius=7.0)[0]
                sw = StockholderWeight.from_arrays([sr["centre"]["element"]], [sr["centre"]["cart_pos"]], sr["neighbours"]["element"], sr["neighbours"]["cart_pos"])
            w = sw.weights(np.asarray(meshes[0].vertices, dtype=np.float32))
            if abs(float(np.median(w)) - want) > 0.05:
                bad.append("Crystal.stockholder_weight_isosurfaces(kind=%r, isovalue=%.2f): the vertices sit at weight %.3f (median)" % (kind, want, float(np.median(w))))
    except Exception as e:
        bad.append("Crystal.stockholder_weight_isosurfaces raises %s: %s" % (type(e).__name__, e))
    try:
        from chmpy import PromoleculeDensity
        mol = c.symmetry_unique_molecules()[0]
        for lvl in (0.002, 0.02):
            for tag, mesh in (("Molecule.promolecule_density_isosurface", mol.promolecule_density_isosurface(isovalue=lvl, separation=0.3)),
                              ("Crystal.promolecule_density_isosurfaces", c.promolecule_density_isosurfaces(isovalue=lvl, separation=0.3)[0])):
                rho = PromoleculeDensity((mol.atomic_numbers, mol.positions)).rho(np.asarray(mesh.vertices, dtype=np.float32))
                if abs(float(np.median(rho)) / lvl - 1) > 0.3:
                    bad.append("%s(isovalue=%g): the vertices sit at density %.4g (median)" % (tag, lvl, float(np.median(rho))))
    except Exception as e:
        bad.append("promolecule front end raises %s: %s" % (type(e).__name__, e))
    return bool(bad), bad


def part_frontends(ctx):
    """the crystal- and molecule-level front ends hand the requested isovalue, grid separation and neighbour radius on unchanged
    (symbolic values; the mesher, the density objects and the neighbour queries are recording stubs)"""
    import chmpy
    import chmpy.surface as realsurf
    from chmpy.crystal.crystal import Crystal
    from chmpy.core.molecule import Molecule
    ctx.encode(Crystal.stockholder_weight_isosurfaces, Crystal.promolecule_density_isosurfaces, Molecule.promolecule_density_isosurface)
    ctx.stub("front ends: chmpy.surface meshers, StockholderWeight/PromoleculeDensity constructors, molecule_environments and atomic_surroundings are recording stubs")
    cm = load_shimmed("chmpy.crystal.crystal")
    mm = load_shimmed("chmpy.core.molecule")
    iso_s, sep_s, rad_s = Sym(z3.Real("isovalue")), Sym(z3.Real("separation")), Sym(z3.Real("radius"))

    class Stop(Exception):
        pass

    class FakeDensity:
        def __init__(self, *a, **k):
            pass

        @classmethod
        def from_arrays(cls, *a, **k):
            return cls()

    class FakeMolecule:
        atomic_numbers, positions = np.array([8]), np.zeros((1, 3))

    failures = []

    def scenario(tag, call, expect):
        rec = {}

        def mesher(dens, isovalue="default", sep="default", **kw):
            rec["isovalue"], rec["sep"] = isovalue, sep
            raise Stop()
        saved = (realsurf.stockholder_weight_isosurface, realsurf.promolecule_density_isosurface, chmpy.StockholderWeight, chmpy.PromoleculeDensity)
        realsurf.stockholder_weight_isosurface = realsurf.promolecule_density_isosurface = mesher
        chmpy.StockholderWeight = chmpy.PromoleculeDensity = FakeDensity
        try:
            ex = Explorer()
            paths = ex.run(lambda: call(rec))
        finally:
            (realsurf.stockholder_weight_isosurface, realsurf.promolecule_density_isosurface, chmpy.StockholderWeight, chmpy.PromoleculeDensity) = saved
        ctx.add_paths(ex)
        for p in paths:
            if not isinstance(p.exc, Stop):
                ctx.harness_error("front end %s did not reach the mesher: %r" % (tag, p.exc))
                return
            for key, sym in expect.items():
                got = rec.get(key, "missing")
                if isinstance(got, str):
                    ok = False
                    r = None
                else:
                    r = ctx.query("front end %s: %s handed on is the one requested" % (tag, key), p.pc, (Sym._lift(got) == sym).t, ex=ex)
                    ok = r.verdict != "cex"
                if not ok:
                    if r is None:
                        ctx.record("front end %s: %s handed on is the one requested" % (tag, key), "counterexample", nontrivial=True)
                    val = None
                    try:
                        val = float(model_value(r.model, iso_s.t)) if key == "isovalue" else None
                    except Exception:
                        val = None
                    failures.append((tag, key, val))

    def crystal(kind):
        def call(rec):
            cr = cm.Crystal.__new__(cm.Crystal)
            cr.molecule_environments = lambda radius="default", **k: (rec.__setitem__("radius", radius), [(FakeMolecule(), np.array([1]), np.ones((1, 3)))])[1]
            cr.atomic_surroundings = lambda radius="default": (rec.__setitem__("radius", radius), [{"centre": {"element": 8, "cart_pos": np.zeros(3)},
                                                                                                  "neighbours": {"element": np.array([1]), "cart_pos": np.ones((1, 3))}}])[1]
            return cr.stockholder_weight_isosurfaces(kind=kind, isovalue=iso_s, separation=sep_s, radius=rad_s)
        return call
    for kind in ("mol", "atom"):
        scenario("Crystal.stockholder_weight_isosurfaces(kind=%r)" % kind, crystal(kind), {"isovalue": iso_s, "sep": sep_s, "radius": rad_s})

    def molecule(rec):
        mol = mm.Molecule.__new__(mm.Molecule)
        from chmpy.core.element import Element
        mol.elements, mol.positions = [Element[8]], np.zeros((1, 3))
        return mol.promolecule_density_isosurface(isovalue=iso_s, separation=sep_s)
    scenario("Molecule.promolecule_density_isosurface", molecule, {"isovalue": iso_s, "sep": sep_s})

    def crystal_pro(rec):
        got = {}

        class M:
            def promolecule_density_isosurface(self, **kw):
                got.update(kw)
                rec["isovalue"], rec["sep"] = kw.get("isovalue", "missing"), kw.get("separation", kw.get("resolution", "missing"))
                raise Stop()
        cr = cm.Crystal.__new__(cm.Crystal)
        cr.symmetry_unique_molecules = lambda: [M()]
        return cr.promolecule_density_isosurfaces(isovalue=iso_s, separation=sep_s)
    scenario("Crystal.promolecule_density_isosurfaces", crystal_pro, {"isovalue": iso_s, "sep": sep_s})
    if failures:
        tag, key, val = failures[0]
        ctx.violation("front:%s" % key, "%s does not hand the requested %s to the mesher" % (tag, key), {"isovalue": float(val) if val is not None else 0.35}, replay_frontend, soft=(key == "radius"))
    else:
        ok, det = replay_frontend({})
        ctx.concrete_note("front ends give surfaces at the requested isovalue on a water crystal (real API)", not ok, str(det))


REPLAY["front"] = replay_frontend


class _MinMax:
    """property array with symbolic entries: .min()/.max() fork, normalisation/colormap are opaque"""

    def __init__(self, arr):
        self.arr = arr

    def min(self):
        m = self.arr[0]
        for v in self.arr[1:]:
            m = v if bool(v < m) else m
        return m

    def max(self):
        m = self.arr[0]
        for v in self.arr[1:]:
            m = v if bool(v > m) else m
        return m
