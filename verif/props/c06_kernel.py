"""C06 layer 2: topology of the Lewiner marching-cubes kernel and its case tables.

The kernel source (_mc_lewiner.pyx) is translated to Python on every run (verif/mc2py.py, validated against the
compiled module on concrete fields) and executed symbolically on a block of two adjacent cubes (12 symbolic
corner values, the three adjacency directions) with the lookup tables that the real
chmpy.mc._mc._get_lookup_tables hands to LutProvider.  The explorer forks on the sign of every corner value and
on the kernel's own face / interior tests (polynomial conditions, decided by z3); on every feasible path the
mesh of the block must be a consistently oriented manifold that is closed inside the block:
every directed edge at most once, a directed edge without its reverse only on the outer surface of the block,
vertices shared between the two cubes.  Closedness of a whole grid follows by translation: every interior face
is the shared face of such a pair."""
import itertools
import time
from collections import Counter

import numpy as np
import z3

from .. import symx, mc2py
from ..symx import Sym, Explorer, model_value

SHAPES = {"x": (2, 2, 3), "y": (2, 3, 2), "z": (3, 2, 2)}      # (Nz, Ny, Nx)


# ------------------------------------------------------------------------------------- replay
def _unmatched_inside(verts, faces, shape_xyz, tol=1e-5):
    """directed edges without reverse that do not lie in an outer face of the volume; duplicate directed edges"""
    e = Counter()
    for a, b, c in faces:
        for u, v in ((a, b), (b, c), (c, a)):
            e[(int(u), int(v))] += 1
    bad = []
    for (u, v), n in e.items():
        if n > 1:
            bad.append("directed edge %d->%d occurs %d times" % (u, v, n))
        if (v, u) not in e:
            pu, pv = verts[u], verts[v]
            on_outer = any((abs(pu[k]) < tol and abs(pv[k]) < tol) or (abs(pu[k] - (shape_xyz[k] - 1)) < tol and abs(pv[k] - (shape_xyz[k] - 1)) < tol) for k in range(3))
            if not on_outer:
                bad.append("edge %s -> %s has no opposite edge although it is inside the volume" % (np.round(pu, 4).tolist(), np.round(pv, 4).tolist()))
    return bad


def replay_block(data):
    """the real (compiled) marching cubes on the block of values, and on the same block embedded in a larger volume"""
    from chmpy.mc import marching_cubes
    vol = np.array(data["values"], dtype=np.float32)       # (Nz, Ny, Nx)
    bad = []
    try:
        v, f, n, val = marching_cubes(vol, level=0.0, allow_degenerate=True)
    except RuntimeError:
        return False, ["no surface in the block"]
    # vertices are returned in (z, y, x) order of the volume axes, i.e. coordinates along axes 0,1,2 of `vol`
    bad += _unmatched_inside(np.asarray(v, float), np.asarray(f), vol.shape)
    return bool(bad), bad[:4]


def replay_translation(data):
    from chmpy.mc import _mc_lewiner as so
    import chmpy.mc._mc as real
    m = mc2py.load()
    L = _tables(m)
    Lreal = real._get_lookup_tables()
    rng = np.random.default_rng(int(data.get("seed", 0)))
    bad = []
    for trial in range(4):
        f = rng.normal(size=(5, 6, 4)).astype(np.float32)
        v1, f1, n1, val1 = so.marching_cubes(f, 0.1, Lreal, 1, 0)
        v2, f2, n2, val2 = m.marching_cubes(f, 0.1, L, 1, 0)
        if not (np.array_equal(f1, f2) and np.allclose(v1, v2, rtol=0, atol=1e-5)):
            bad.append("compiled kernel and its source disagree on a random field")
    return bool(bad), bad


REPLAY = {"kernel": replay_block, "kernelsrc": replay_translation}


# ------------------------------------------------------------------------------------ harness
def _tables(m):
    """LutProvider of the translated module, built by the real _get_lookup_tables (so the order in which the real
    code hands the tables over is part of what is checked)"""
    import chmpy.mc._mc as real
    from chmpy.mc import lookup_tables
    saved = lookup_tables.__dict__.pop("THE_LUTS", None)
    orig = real.LutProvider
    real.LutProvider = m.LutProvider
    try:
        L = real._get_lookup_tables()
    finally:
        real.LutProvider = orig
        lookup_tables.__dict__.pop("THE_LUTS", None)
        if saved is not None:
            lookup_tables.THE_LUTS = saved
    return L


def fidelity(ctx):
    from chmpy.mc import _mc_lewiner as so
    import chmpy.mc._mc as real
    t0 = time.time()
    try:
        m = mc2py.load()
    except Exception as e:
        ctx.harness_error("mc2py could not translate _mc_lewiner.pyx: %s: %s" % (type(e).__name__, e))
        return None
    L, Lreal = _tables(m), real._get_lookup_tables()
    rng = np.random.default_rng(7)
    same = True
    for trial in range(6):
        f = rng.normal(size=(6, 5, 7)).astype(np.float32)
        if trial < 2:
            g = np.stack(np.meshgrid(np.linspace(-1, 1, 6), np.linspace(-1, 1, 5), np.linspace(-1, 1, 7), indexing="ij"))
            f = sum(np.exp(-((g - rng.uniform(-0.6, 0.6, 3)[:, None, None, None]) ** 2).sum(0) / 0.2) for _ in range(3)).astype(np.float32)
        lev = float(np.median(f))
        v1, f1, n1, val1 = so.marching_cubes(f, lev, Lreal, 1, 0)
        v2, f2, n2, val2 = m.marching_cubes(f, lev, L, 1, 0)
        same = same and np.array_equal(f1, f2) and np.allclose(v1, v2, rtol=0, atol=1e-5)
    ctx.compiled_check("kernel: translated _mc_lewiner.pyx reproduces the compiled module (faces identical, vertices to 1e-5) on 6 fields covering the ambiguous cases",
                       bool(same), "%.1fs" % (time.time() - t0))
    return m


def prepare(m, stub_internal=False):
    """harness overrides, all stated in the evidence"""
    m._ti_counter = [0]
    if stub_internal:
        # the interior test chooses between two tilings of the same cube with the same contours on the cube's faces (tunnel or
        # no tunnel); with this option its arithmetic (a quotient of polynomials) is not executed and both outcomes are explored
        def test_internal(cell, luts, case, config, subconfig, s):
            m._ti_counter[0] += 1
            return symx._EX.choose(Sym(z3.Int("ti_%d" % m._ti_counter[0])), [0, 1])
        m.test_internal = test_internal
    m.FLT_EPSILON = 0            # generic inputs: the bands |AC-BD| < 2.2e-16 and the eps in denominators are outside the claim
    m.dabs = lambda a: abs(a)    # |a| as a term (the C helper forks on the sign)
    C = m.Cell
    C.add_gradient = lambda self, *a: None
    C.add_gradient_from_index = lambda self, *a: None

    def prep(self):
        self.vv = [1.0] * 8      # corner weights of the vertex interpolation: positions are layer 1's subject, not topology
    C.prepare_for_adding_triangles = prep
    C.get_vertices = lambda self: None
    C.get_normals = lambda self: None
    C.get_values = lambda self: None
    C.get_faces = lambda self: list(self._faces[:self._faceCount])
    log = []
    orig = C._add_face_from_edge_index

    def logged(self, vi):
        orig(self, vi)
        log.append((self.x, self.y, self.z, int(vi), int(self._faces[self._faceCount - 1])))
    C._add_face_from_edge_index = logged
    return log


def _key(luts, x, y, z, vi):
    if vi == 12:
        return ("c", x, y, z)
    p = []
    for k in (0, 1):
        p.append((x + luts.EDGESRELX.get2(vi, k), y + luts.EDGESRELY.get2(vi, k), z + luts.EDGESRELZ.get2(vi, k)))
    return frozenset(p)


def check_mesh(luts, faces, log, dims_xyz):
    """combinatorial verdict on one explored path; returns None or a description"""
    vkey = {}
    for (x, y, z, vi, idx) in log:
        k = _key(luts, x, y, z, vi)
        if vkey.setdefault(idx, k) != k:
            return "vertex %d is used for two different grid edges" % idx
    if len(set(vkey.values())) != len(vkey):
        return "two vertices were created on the same grid edge (not shared between the cubes)"
    if len(faces) % 3:
        return "face list is not a list of triangles"
    e = Counter()
    for t in range(0, len(faces), 3):
        a, b, c = faces[t:t + 3]
        if len({a, b, c}) < 3:
            return "degenerate triangle"
        for u, v in ((a, b), (b, c), (c, a)):
            e[(u, v)] += 1
    for (u, v), n in e.items():
        if n > 1:
            return "directed edge %s -> %s occurs %d times" % (sorted(map(tuple, vkey[u])) if not isinstance(vkey[u], tuple) else vkey[u], vkey[v], n)
        if (v, u) in e:
            continue
        ku, kv = vkey[u], vkey[v]
        if isinstance(ku, tuple) or isinstance(kv, tuple):
            return "an edge at a cube-centre vertex has no opposite edge"
        pts = list(ku) + list(kv)
        outer = any(all(p[a] == 0 for p in pts) or all(p[a] == dims_xyz[a] - 1 for p in pts) for a in range(3))
        if not outer:
            return "edge between grid edges %s and %s has no opposite edge although it lies inside the block (contours of the two cubes on their shared face differ)" % (sorted(ku), sorted(kv))
    return None


def run_pair(ctx, m_unused, axis, bucket, nbuckets_bits=4, path=None):
    m = mc2py.load(path) if path else mc2py.load()
    log = prepare(m)
    L = _tables(m)
    shape = SHAPES[axis]
    nz, ny, nx = shape
    V = np.empty(shape, dtype=object)
    names = []
    for z in range(nz):
        for y in range(ny):
            for x in range(nx):
                V[z, y, x] = Sym(z3.Real("v_%d%d%d" % (x, y, z)))
                names.append((z, y, x))
    ex = Explorer(max_paths=200000, branch_timeout_ms=2000)
    base = [z3.Or(v.t >= z3.RealVal("1/100"), v.t <= -z3.RealVal("1/100")) for v in V.flat] + [z3.And(v.t >= -10, v.t <= 10) for v in V.flat]
    flat = list(V.flat)
    for b in range(nbuckets_bits):
        base.append(flat[b].t > 0 if (bucket >> b) & 1 else flat[b].t < 0)
    ex.base = base

    def go():
        del log[:]
        verts, faces, normals, values = m.marching_cubes(V, 0.0, L, 1, 0)
        return list(faces), list(log)
    t0 = time.time()
    paths = ex.run(go)
    ctx.add_paths(ex)
    bads = []
    npaths = 0
    for p in paths:
        if p.exc is not None:
            bads.append((p, "kernel raises %s: %s" % (type(p.exc).__name__, p.exc)))
            continue
        faces, lg = p.value
        npaths += 1
        why = check_mesh(L, faces, lg, (nx, ny, nz))
        if why:
            bads.append((p, why))
    name = "kernel: two cubes adjacent along %s, corner signs bucket %d/%d: %d feasible paths (sign patterns x face/interior tests), mesh closed inside the block on each" % (
        axis, bucket, 1 << nbuckets_bits, npaths)
    # general position: no face saddle value (A.C - B.D) is zero -- a path that exists only for an exactly degenerate face is outside the claim
    generic = []
    for cz in range(nz - 1):
        for cy in range(ny - 1):
            for cx in range(nx - 1):
                for ax_ in range(3):
                    for side in (0, 1):
                        pts = [pt for pt in itertools.product(range(2), repeat=3) if pt[ax_] == side]
                        byloc = {_face_local(pt, ax_): V[cz + pt[2], cy + pt[1], cx + pt[0]] for pt in pts}
                        q = (byloc[(0, 0)] * byloc[(1, 1)] - byloc[(0, 1)] * byloc[(1, 0)]).t
                        generic.append(z3.Or(q >= z3.RealVal("1/1000000"), q <= -z3.RealVal("1/1000000")))
    ndeg = 0
    for p, why in bads[:40]:
        r, sol = ex.check(p.pc + generic, timeout_ms=20000)
        if r == "unsat":
            ndeg += 1
            continue
        if r != "sat":
            ctx.record(name, "unknown", seconds=time.time() - t0, nontrivial=True)
            ctx.mark_inconclusive(name, "a path with an open mesh (%s) has no model in general position within the time limit (%s)" % (why, r))
            return npaths
        mdl = sol.model()
        vals = [[[float(model_value(mdl, V[z, y, x].t)) for x in range(nx)] for y in range(ny)] for z in range(nz)]
        ctx.record(name, "counterexample", seconds=time.time() - t0, nontrivial=True)
        ctx.violation("kernel:%s" % axis, "two cubes adjacent along %s: %s" % (axis, why), {"values": vals, "axis": axis}, replay_block)
        return npaths
    ctx.record(name + (" (%d further paths exist only for a face saddle value of exactly zero: outside the claim)" % ndeg if ndeg else ""), "holds", seconds=time.time() - t0,
               nontrivial=True, solver="z3 " + z3.get_version_string(), unknown_branches=ex.stats["unknown_branches"])
    return npaths


# ------------------------------------------------------------- single cube: contours as functions of the face values
def _face_local(pt, axis):
    return tuple(pt[k] for k in range(3) if k != axis)


def run_single(ctx, patterns, path=None):
    """One cube, the sign pattern of its 8 corners fixed per run, the kernel's face / interior tests forked.  Per path:
    the mesh is closed inside the cube, and for each of the 6 faces the contour (directed edges without opposite in that
    face) is recorded together with the face's corner signs and, for an ambiguous face, the sign of its saddle value
    A.C - B.D, which the path condition must determine.  Returns table rows."""
    m = mc2py.load(path) if path else mc2py.load()
    log = prepare(m)
    L = _tables(m)
    V = np.empty((2, 2, 2), dtype=object)
    for z in range(2):
        for y in range(2):
            for x in range(2):
                V[z, y, x] = Sym(z3.Real("v_%d%d%d" % (x, y, z)))
    rows = []
    npaths = 0
    t0 = time.time()
    for pat in patterns:
        ex = Explorer(max_paths=20000, branch_timeout_ms=2000)
        sign = {}
        base = []
        for i, (z, y, x) in enumerate(itertools.product(range(2), repeat=3)):
            pos = bool((pat >> i) & 1)
            sign[(x, y, z)] = pos
            base += [V[z, y, x].t >= z3.RealVal("1/100") if pos else V[z, y, x].t <= -z3.RealVal("1/100"), V[z, y, x].t <= 10, V[z, y, x].t >= -10]
        ex.base = base

        def go():
            del log[:]
            m._ti_counter[0] = 0
            verts, faces, normals, values = m.marching_cubes(V, 0.0, L, 1, 0)
            return list(faces), list(log)
        paths = ex.run(go)
        ctx.add_paths(ex)
        for p in paths:
            npaths += 1
            if p.exc is not None:
                return rows, npaths, ("kernel raises %s: %s" % (type(p.exc).__name__, p.exc), p, ex, V)
            faces, lg = p.value
            why = check_mesh(L, faces, lg, (2, 2, 2))
            if why:
                return rows, npaths, (why, p, ex, V)
            vkey = {idx: _key(L, x, y, z, vi) for (x, y, z, vi, idx) in lg}
            e = Counter()
            for t in range(0, len(faces), 3):
                a, b, c = faces[t:t + 3]
                for u, v in ((a, b), (b, c), (c, a)):
                    e[(u, v)] += 1
            open_edges = [(u, v) for (u, v) in e if (v, u) not in e]
            for axis in range(3):
                for side in (0, 1):
                    corners = [pt for pt in itertools.product(range(2), repeat=3) if pt[axis] == side]
                    loc = {pt: _face_local(pt, axis) for pt in corners}
                    sg = tuple(sign[pt] for pt in sorted(corners, key=lambda q: loc[q]))     # order (0,0),(0,1),(1,0),(1,1)
                    contour = []
                    for (u, v) in open_edges:
                        ku, kv = vkey[u], vkey[v]
                        if all(pt[axis] == side for pt in ku) and all(pt[axis] == side for pt in kv):
                            contour.append((tuple(sorted(loc[pt] for pt in ku)), tuple(sorted(loc[pt] for pt in kv))))
                    ambiguous = sg[0] == sg[3] and sg[1] == sg[2] and sg[0] != sg[1]
                    sigma = None
                    if ambiguous:
                        byloc = {loc[pt]: V[pt[2], pt[1], pt[0]] for pt in corners}
                        q = (byloc[(0, 0)] * byloc[(1, 1)] - byloc[(0, 1)] * byloc[(1, 0)]).t
                        rp = ex.check(p.pc + [q > 0], timeout_ms=5000)[0]
                        rn = ex.check(p.pc + [q < 0], timeout_ms=5000)[0]
                        if rp == "unsat" and rn == "unsat":
                            sigma = "infeasible"
                        elif rp != "unsat" and rn != "unsat":
                            sigma = "undetermined"
                        else:
                            sigma = "+" if rn == "unsat" else "-"
                    rows.append({"axis": axis, "side": side, "signs": [int(s) for s in sg], "sigma": sigma, "contour": sorted(contour), "pattern": pat})
    return rows, npaths, None


def merge_tables(rows):
    """consistency of the contour functions and of the gluing; returns list of problems"""
    bad = []
    F = {}
    for r in rows:
        if r["sigma"] == "infeasible":
            continue
        if r["sigma"] == "undetermined":
            bad.append("ambiguous face (axis %d side %d, pattern %d) is tiled without its saddle sign being decided by the path" % (r["axis"], r["side"], r["pattern"]))
            continue
        key = (r["axis"], r["side"], tuple(r["signs"]), r["sigma"])
        c = tuple(tuple(map(tuple, seg)) for seg in r["contour"])
        if key in F and F[key] != c:
            bad.append("contour on face (axis %d, side %d) with corner signs %s saddle %s is not a function of the face's values: %s vs %s (pattern %d)"
                       % (r["axis"], r["side"], r["signs"], r["sigma"], F[key], c, r["pattern"]))
        F.setdefault(key, c)
    for (axis, side, sg, sigma), c in F.items():
        if side != 1:
            continue
        other = F.get((axis, 0, sg, sigma))
        if other is None:
            bad.append("face key never seen on the opposite side: axis %d signs %s saddle %s" % (axis, sg, sigma))
            continue
        rev = tuple(sorted((b, a) for (a, b) in other))
        if tuple(sorted(c)) != rev:
            bad.append("two cubes adjacent along axis %d: shared face with corner signs %s (saddle %s) gets contour %s from one cube and %s from the other (not opposite)"
                       % (axis, list(sg), sigma, c, other))
    nkeys = len(F)
    return bad, nkeys


# ---------------------------------------------------------------------------- replay by search on the real code
def replay_kernel(data):
    """the compiled kernel (through the public chmpy.mc.marching_cubes) and the kernel source (translated) with the tables the
    real code hands over, on the given block of values if any and on random fields: a directed edge inside the volume
    without its opposite is a hole in the mesh"""
    from chmpy.mc import marching_cubes
    import chmpy.mc._mc as real
    rng = np.random.default_rng(int(data.get("seed", 3)))
    vols = []
    if data.get("values") is not None:
        vols.append(np.array(data["values"], dtype=np.float32))
    for k in range(int(data.get("trials", 300))):
        vols.append(rng.normal(size=(3, 4, 3)).astype(np.float32))
    bad = []
    for vol in vols:            # the compiled module, public API
        try:
            v, f, n, val = marching_cubes(vol, level=0.0, allow_degenerate=True)
        except RuntimeError:
            continue
        b = _unmatched_inside(np.asarray(v, float), np.asarray(f), vol.shape)
        if b:
            bad.append("compiled kernel, volume %s: %s" % (np.round(vol, 3).tolist(), b[0]))
            break
    if not bad:                  # the source text (the compiled module may be older than the source)
        try:
            m = mc2py.load()
            L = _tables(m)
            for vol in vols[:120]:
                v, f, n, val = m.marching_cubes(vol, 0.0, L, 1, 0)
                if len(f) == 0:
                    continue
                vv = np.asarray(v, float)[:, ::-1]      # kernel order (x, y, z) -> volume axes
                b = _unmatched_inside(vv, np.asarray(f).reshape(-1, 3), vol.shape)
                if b:
                    bad.append("kernel source (translated; the compiled module does not show it), volume %s: %s" % (np.round(vol, 3).tolist(), b[0]))
                    break
        except Exception as e:
            bad.append("kernel source raises %s: %s" % (type(e).__name__, e))
    return bool(bad), bad[:2]


REPLAY["kernel"] = replay_kernel


# --------------------------------------------------------------------------------------- section
def _single_worker(pats):
    from .. import core
    sub = core.Ctx("C06", "quick", 0)
    try:
        rows, n, err = run_single(sub, pats)
    except symx.PathLimit as e:
        return [], 0, "path limit: %s" % e, None, sub.paths, sub.branches
    vals = None
    if err:
        why, p, ex, V = err
        r, sol = ex.check(p.pc, timeout_ms=20000)
        if r == "sat":
            mdl = sol.model()
            vals = [[[float(model_value(mdl, V[z, y, x].t)) for x in range(2)] for y in range(2)] for z in range(2)]
        err = why
    return rows, n, err, vals, sub.paths, sub.branches


def _pair_worker(args):
    from .. import core
    axis, bucket, bits = args
    sub = core.Ctx("C06", "quick", 0)
    sub.max_reports = 1
    deferred = []
    sub.violation = lambda key, what, data, fn, soft=False: deferred.append((key, what, data))
    try:
        n = run_pair(sub, None, axis, bucket, nbuckets_bits=bits)
    except symx.PathLimit as e:
        return axis, bucket, 0, [], [], ["path limit: %s" % e], 0, 0
    return axis, bucket, n, sub.queries, deferred, [i["reason"] for i in sub.inconclusive], sub.paths, sub.branches


def part_kernel(ctx):
    import multiprocessing as mp
    thorough = ctx.tier == "thorough"
    ctx.encode_file("/repo/src/chmpy/mc/_mc_lewiner.pyx", "_mc_lewiner.pyx: Cell, Lut, LutProvider, marching_cubes, the_big_switch, test_face, test_internal (mc2py translation)")
    ctx.encode_file("/repo/src/chmpy/mc/lookup_tables.py", "case tables, through the real _get_lookup_tables")
    ctx.bound("kernel: (a) one cube, all 256 corner sign patterns, every outcome of the kernel's face and interior tests that z3 finds feasible for symbolic corner values 0.01 <= |v| <= 10; "
              "(b) two cubes sharing a face in each of the three directions, %s of the 4096 corner sign patterns" % ("768 (3 x 16 buckets of 16)" if thorough else "48 (3 x 4 buckets of 4)"))
    ctx.assume("kernel: exact arithmetic on generic values: FLT_EPSILON (2.2e-16) is set to 0, i.e. the bands |A.C - B.D| < eps of the face test and the eps in denominators are outside the claim; "
               "corner values are non-zero")
    ctx.stub("kernel harness: vertex positions, gradients/normals and per-vertex values are not computed (prepare_for_adding_triangles, add_gradient*, get_vertices/normals/values replaced): "
             "only faces and the vertex-sharing bookkeeping are observed")
    m = fidelity(ctx)
    if m is None:
        return
    # (a) single cube
    t0 = time.time()
    chunks = [[p for p in range(256) if p % 32 == k] for k in range(32)]
    with mp.get_context("fork").Pool(16) as pool:
        out = pool.map(_single_worker, chunks)
    rows = [r for o in out for r in o[0]]
    npaths = sum(o[1] for o in out)
    ctx.paths += sum(o[4] for o in out)
    ctx.branches += sum(o[5] for o in out)
    errs = [(o[2], o[3]) for o in out if o[2]]
    if errs:
        why, vals = errs[0]
        ctx.record("kernel (a): one cube, 256 corner sign patterns: mesh closed inside the cube on every path", "counterexample", seconds=time.time() - t0, nontrivial=True)
        ctx.violation("kernel:cube", "one cube: %s" % why, {"values": vals, "trials": 300}, replay_kernel)
        return
    ctx.record("kernel (a): one cube, all 256 corner sign patterns, %d feasible paths: triangles closed inside the cube, open edges only in the cube's faces" % npaths, "holds",
               seconds=time.time() - t0, nontrivial=True, solver="z3 " + z3.get_version_string())
    bad, nkeys = merge_tables(rows)
    nsig = sum(1 for r in rows if r["sigma"] in ("+", "-"))
    ctx.record("kernel (a): the contour on a cube face is a function of that face's four corner signs and (ambiguous faces) the sign of its saddle value A.C - B.D, "
               "which every path through the kernel's tests determines (%d keys from %d face records, %d with a saddle sign decided by z3 on the path condition)" % (nkeys, len(rows), nsig),
               "holds" if not [b for b in bad if "adjacent" not in b] else "counterexample", seconds=time.time() - t0, nontrivial=True, solver="z3 " + z3.get_version_string())
    ctx.record("kernel (a): gluing: for each of the three directions and every face key, the contour of the face seen from one cube is the reverse of the contour seen from its neighbour "
               "(hence the meshes of adjacent cubes match edge for edge)", "holds" if not [b for b in bad if "adjacent" in b or "never seen" in b] else "counterexample",
               seconds=0.0, nontrivial=True)
    if bad:
        ctx.violation("kernel:contour", "kernel + tables: %s" % bad[0][:400], {"trials": 400, "seed": 11}, replay_kernel)
        return
    facelayer_lemma(ctx)
    # (b) two cubes: vertex sharing through the face layers, all three directions
    t0 = time.time()
    rng = np.random.default_rng(ctx.seed)
    if thorough:
        jobs = [(ax, int(b), 8) for ax in "xyz" for b in rng.choice(256, 16, replace=False)]
    else:
        jobs = [(ax, int(b), 10) for ax in "xyz" for b in rng.choice(1024, 4, replace=False)]
    with mp.get_context("fork").Pool(16) as pool:
        res = pool.map(_pair_worker, jobs)
    for axis, bucket, n, queries, deferred, inc, pths, brs in res:
        ctx.queries.extend(queries)
        ctx.paths += pths
        ctx.branches += brs
        for reason in inc:
            ctx.mark_inconclusive("kernel (b) %s bucket %d" % (axis, bucket), reason)
        for key, what, data in deferred:
            data = dict(data)
            data["trials"] = 300
            ctx.violation(key, what, data, replay_kernel)


def facelayer_lemma(ctx):
    """get_index_in_facelayer on a symbolic cube position: two references (cube, edge) get the same slot of the same face
    layer iff they are the same grid edge -- for any position in the grid (nx in {3, 5, 8}), neighbours in x, y, xy and
    the cube above after new_z_value()"""
    m = mc2py.load()
    L = _tables(m)
    t0 = time.time()
    nq = 0
    bad = None
    for nx in (3, 5, 8):
        cell = m.Cell(L, nx, nx + 1, 4)
        x, y = Sym(z3.Int("cx")), Sym(z3.Int("cy"))
        dom = [x.t >= 0, x.t <= nx - 2, y.t >= 0, y.t <= nx - 1]

        def slot(cx, cy, vi):
            cell.x, cell.y, cell.z, cell.step = cx, cy, 0, 1
            idx = cell.get_index_in_facelayer(vi)
            layer = 1 if cell.faceLayer is cell.faceLayer1 else (2 if cell.faceLayer is cell.faceLayer2 else 0)
            return layer, idx

        def phys(dx, dy, dz, vi):
            if vi == 12:
                return ("c", dx, dy, dz)
            return frozenset((dx + L.EDGESRELX.get2(vi, k), dy + L.EDGESRELY.get2(vi, k), dz + L.EDGESRELZ.get2(vi, k)) for k in (0, 1))
        for (dx, dy) in ((0, 0), (1, 0), (0, 1), (1, 1)):
            for vi in range(13):
                for vj in range(13):
                    if (dx, dy) == (0, 0) and vj <= vi:
                        continue
                    la, ia = slot(x, y, vi)
                    lb, ib = slot(x + dx, y + dy, vj)
                    same = phys(0, 0, 0, vi) == phys(dx, dy, 0, vj)
                    ia_t, ib_t = Sym._lift(ia).t, Sym._lift(ib).t
                    goal = z3.And(z3.BoolVal(la == lb), ia_t == ib_t) if same else z3.Or(z3.BoolVal(la != lb), ia_t != ib_t)
                    s = z3.Solver()
                    s.add(*dom)
                    s.add(z3.Not(goal))
                    nq += 1
                    if str(s.check()) != "unsat":
                        bad = "nx=%d: cube (x,y) edge %d and cube (x+%d,y+%d) edge %d: %s" % (nx, vi, dx, dy, vj, "same grid edge but different slots" if same else "different grid edges share a slot")
                        break
                if bad:
                    break
            if bad:
                break
        # the cube above: its bottom edges (0..3) after new_z_value() are the top edges (4..7) of the cube below
        if not bad:
            for vi in range(4):
                l_low, i_low = slot(x, y, vi + 4)
                l1, l2 = cell.faceLayer1, cell.faceLayer2
                cell.new_z_value()
                swapped = cell.faceLayer1 is l2 and cell.faceLayer2 is l1
                l_up, i_up = slot(x, y, vi)
                cell.new_z_value()
                s = z3.Solver()
                s.add(*dom)
                s.add(Sym._lift(i_low).t != Sym._lift(i_up).t)
                nq += 1
                if not (swapped and l_low == 2 and l_up == 1) or str(s.check()) != "unsat":
                    bad = "nx=%d: top edge %d of a cube and bottom edge %d of the cube above do not share a slot across new_z_value()" % (nx, vi + 4, vi)
                    break
        if bad:
            break
    ctx.record("kernel (c): face-layer slots: for a symbolic cube position (nx in {3,5,8}) two (cube, edge) references in a layer and across layers get the same slot iff they are the same grid edge (%d LIA queries)" % nq,
               "holds" if not bad else "counterexample", seconds=time.time() - t0, nontrivial=True, solver="z3 " + z3.get_version_string())
    if bad:
        ctx.violation("kernel:slots", "vertex sharing: %s" % bad, {"trials": 300, "seed": 5}, replay_kernel)
