"""C03  Periodic neighbourhood queries return exactly the atoms within the radius.

Lemma A (completeness of the searched cells), lemma B (slab layout) and lemma C (selection
by the KD-tree answers) over the real Crystal methods executed symbolically."""
import itertools
import math
import time
from fractions import Fraction

import numpy as np
import z3

from .. import symx
from ..symx import Sym, SymBool, Explorer, load_shimmed, model_value, OArr


class _Captured(Exception):
    def __init__(self, bounds):
        self.bounds = bounds


def _mat(prefix, n=3, m=3):
    return np.array([[Sym(z3.Real("%s%d%d" % (prefix, i, j))) for j in range(m)] for i in range(n)], dtype=object).view(OArr)


class Mods:
    def __init__(self):
        self.cm = load_shimmed("chmpy.crystal.crystal")
        self.ucm = load_shimmed("chmpy.crystal.unit_cell")
        self.ucm.UnitCell._set_cell_type = lambda self: None


def symbolic_cell(mods, ex):
    """UnitCell object of the shimmed class with symbolic direct/inverse/lengths and the
    representation invariant (C12) registered as sliceable axioms."""
    D, Iv = _mat("D"), _mat("I")
    L = [Sym(z3.Real("len%d" % i)) for i in range(3)]
    uc = mods.ucm.UnitCell.__new__(mods.ucm.UnitCell)
    uc.direct, uc.inverse, uc.lengths = D, Iv, L
    DI, ID = np.dot(D, Iv), np.dot(Iv, D)
    inv_ax = [(DI[i, j] == (1 if i == j else 0)).t for i in range(3) for j in range(3)]
    inv_ax += [(ID[i, j] == (1 if i == j else 0)).t for i in range(3) for j in range(3)]
    for i in range(3):
        for j in range(3):
            ex.defs["D%d%d" % (i, j)] = inv_ax
    for i in range(3):
        ex.defs["len%d" % i] = [L[i].t > 0, (L[i] * L[i] == sum(D[i, k] * D[i, k] for k in range(3))).t]
    return uc, D, Iv, L


def make_crystal(mods, uc):
    cr = mods.cm.Crystal.__new__(mods.cm.Crystal)
    cr.unit_cell = uc
    cr.properties = {}
    return cr


class FakeAsym:
    def __init__(self, positions, numbers):
        from chmpy.core.element import Element
        self.positions = positions
        self.atomic_numbers = np.array(numbers)
        self.elements = [Element[int(n)] for n in numbers]
        self.labels = np.array(["X%d" % i for i in range(len(numbers))])
        self.properties = {}

    def __len__(self):
        return len(self.atomic_numbers)


class FakeMol:
    def __init__(self, positions, numbers):
        self.positions = positions
        self.atomic_numbers = np.array(numbers)
        self.properties = {}

    def __len__(self):
        return len(self.atomic_numbers)


# ------------------------------------------------------------------------------------------
# replay: brute-force periodic search against the real API
# ------------------------------------------------------------------------------------------
def _brute(uc, frac_uc, centres, radius):
    """indices (cell, k) of all images within radius of any centre (Cartesian)."""
    inv = np.asarray(uc.inverse, float)
    reach = radius * np.linalg.norm(inv, axis=0)
    fc = np.asarray(centres) @ inv
    lo = np.floor(fc.min(axis=0) - reach).astype(int) - 1
    hi = np.ceil(fc.max(axis=0) + reach).astype(int) + 1
    out = []
    for h in range(lo[0], hi[0] + 1):
        for k in range(lo[1], hi[1] + 1):
            for l in range(lo[2], hi[2] + 1):
                pos = (frac_uc + np.array([h, k, l])) @ np.asarray(uc.direct, float)
                for a, p in enumerate(pos):
                    dmin = np.linalg.norm(np.asarray(centres) - p, axis=1).min()
                    if dmin <= radius:
                        out.append((a, tuple(np.round(p, 6)), dmin))
    return out


def replay_radius(data):
    from chmpy.crystal import Crystal, UnitCell, SpaceGroup, AsymmetricUnit
    from chmpy.core.element import Element
    from chmpy.core.molecule import Molecule
    D = np.array(data["D"], float)
    uc = UnitCell(D)
    frac = np.array(data["frac"], float).reshape(-1, 3)
    frac = frac - np.floor(frac)
    if data.get("centres") is not None and data.get("which") in ("atomic_surroundings", "atom_group_surroundings"):
        # sites are listed with the (possibly unwrapped) fractional coordinates of the counterexample: the bound arithmetic sees them
        cen = np.array(data["centres"], float).reshape(-1, 3) @ np.linalg.inv(D)
        frac[:len(cen)] = cen
    Z = list(data.get("Z", [6] * len(frac)))
    els = [Element[n] for n in Z]
    # domain guard: the sites of the scenario must be distinct modulo the lattice (a counterexample whose centres are lattice
    # translates of each other would put two atoms on one site)
    # (a solver model may list the same site twice with different unwrapped coordinates, or take as missed image a lattice image
    # of a centre itself.  A real structure lists every site once: a later centre that coincides with an earlier one is moved
    # by 0.3 A -- the model keeps 5% of the radius as margin -- and a missed image that is an image of a listed site is not
    # added as a further atom)
    invD = np.linalg.inv(D)
    ncen = len(data["centres"]) if data.get("centres") is not None else 0

    def coincide(a, b):
        dd = np.abs((a - np.floor(a)) - (b - np.floor(b)))
        dd = np.minimum(dd, 1 - dd)
        return np.linalg.norm(dd @ D) < 0.05
    Z = list(data.get("Z", [6] * len(frac)))
    keep = []
    moved = {}
    for i in range(len(frac)):
        clash = [j for j in keep if coincide(frac[i], frac[j])]
        if clash and i < ncen:
            shift = (0.3 * np.array([0.6, 0.64, 0.48]) * (1 + 0.5 * i)) @ invD
            frac[i] = frac[i] + shift
            moved[i] = shift
            keep.append(i)
        elif clash:
            continue            # an image of a listed site
        else:
            keep.append(i)
    if moved and data.get("centres") is not None:
        data = dict(data)
        cen_ = np.array(data["centres"], float)
        for i, sh in moved.items():
            cen_[i] = cen_[i] + sh @ D
        data["centres"] = cen_.tolist()
    frac = frac[keep]
    data = dict(data)
    data["Z"] = [Z[i] for i in keep]
    Z = list(data["Z"])
    els = [Element[n] for n in Z]
    c = Crystal(uc, SpaceGroup(1), AsymmetricUnit(els, frac))
    r = float(data["r"])
    bad = []
    which = data.get("which", "atoms_in_radius")
    ucf = c.unit_cell_atoms()["frac_pos"]
    ucz = c.unit_cell_atoms()["element"]

    def compare(tag, got_pos, got_el, centres, exclude_self):
        br = _brute(uc, ucf, centres, r)
        want = {p: ucz[a] for a, p, d in br if (d > 1e-3 or not exclude_self)}
        edge = {p for _, p, d in br if abs(d - r) < 1e-6}
        got = [tuple(np.round(p, 6)) for p in got_pos]
        missing = [p for p in want if p not in got and p not in edge]
        extra = [p for p in got if p not in want and p not in edge]
        if missing:
            bad.append("%s misses %d image(s), e.g. %s" % (tag, len(missing), missing[0]))
        if extra:
            bad.append("%s reports %d image(s) it should not, e.g. %s" % (tag, len(extra), extra[0]))
        if len(set(got)) != len(got):
            bad.append("%s reports duplicates" % tag)
        if got_el is not None:
            wrong = [p for p, e in zip(got, got_el) if p in want and want[p] != e]
            if wrong:
                bad.append("%s reports the wrong element for %s" % (tag, wrong[0]))

    if which == "atoms_in_radius":
        o = np.array(data["origin"], float)
        res = c.atoms_in_radius(r, origin=o)
        if data.get("origin2") is not None:
            compare(which, res["cart_pos"], res["element"], [o], False)
            o = np.array(data["origin2"], float)          # the same crystal object asked again around another centre
            res = c.atoms_in_radius(r, origin=o)
        compare(which, res["cart_pos"], res["element"], [o], False)
        for m in range(len(res["cart_pos"])):
            k = int(res["uc_atom"][m])
            if not np.allclose(uc.to_cartesian((ucf[k] + res["cell"][m])[None])[0], res["cart_pos"][m], rtol=0, atol=1e-8):
                bad.append("uc_atom/cell of a reported row do not give its position")
                break
    elif which == "atomic_surroundings":
        res = c.atomic_surroundings(radius=r)
        cart = uc.to_cartesian(frac)
        for i, s in enumerate(res):
            nb = s["neighbours"]
            compare("atomic_surroundings(site %d)" % i, nb["cart_pos"], nb["element"], [cart[i]], True)
            if len(nb["cart_pos"]) and not np.allclose(nb["distance"], np.linalg.norm(nb["cart_pos"] - cart[i], axis=1), rtol=0, atol=1e-8):
                bad.append("reported distances are not the distances of the reported positions")
    else:
        cart = uc.to_cartesian(frac)
        idx = list(data.get("mol", range(len(data["centres"])) if data.get("centres") is not None else range(len(frac))))
        if which == "molecule_environments":
            cen = np.array(data["centres"], float) if data.get("centres") is not None and len(data["centres"]) == len(idx) else cart[idx]
            c._symmetry_unique_molecules = [Molecule.from_arrays(np.array(Z)[idx], cen)]
            _, els_, pos = c.molecule_environments(radius=r)[0]
            compare(which, pos, els_, cen, True)
            return bool(bad), bad
        if which == "molecule_environment":
            # the molecule is given in Cartesian coordinates and may lie anywhere (its atoms are lattice translates of crystal atoms)
            cen = np.array(data["centres"], float) if data.get("centres") is not None and len(data["centres"]) == len(idx) else cart[idx]
            mol = Molecule.from_arrays(np.array(Z)[idx], cen)
            _, els_, pos = c.molecule_environment(mol, radius=r)
            compare(which, pos, els_, cen, True)
            return bool(bad), bad
        else:
            c._symmetry_unique_molecules = [Molecule.from_arrays(np.array(Z), cart)]
            _, (els_, pos) = c.atom_group_surroundings(idx, radius=r)
        compare(which, pos, els_, cart[idx], True)
    return bool(bad), bad


def replay_slab(data):
    from chmpy.crystal import Crystal, UnitCell, SpaceGroup, AsymmetricUnit
    from chmpy.core.element import Element
    uc = UnitCell.from_lengths_and_angles([5.0, 6.0, 7.0], [1.3, 1.8, 1.2])
    frac = np.array([[0.1, 0.2, 0.3], [0.6, 0.7, 0.85]])
    c = Crystal(uc, SpaceGroup(1), AsymmetricUnit([Element[6], Element[1]], frac))
    lo, hi = data["lo"], data["hi"]
    s = c.slab(bounds=(tuple(lo), tuple(hi)))
    want = {(k, h, kk, l) for k in range(2) for h in range(lo[0], hi[0] + 1) for kk in range(lo[1], hi[1] + 1) for l in range(lo[2], hi[2] + 1)}
    got = set()
    bad = []
    for row in range(len(s["frac_pos"])):
        k = row % s["n_uc"]
        cell = np.round(s["frac_pos"][row] - frac[k]).astype(int)
        if not np.allclose(s["frac_pos"][row] - frac[k], cell, rtol=0, atol=1e-9):
            bad.append("row %d is not a lattice translate of unit-cell atom %d" % (row, k))
            break
        if not np.allclose(s["cell"][row], cell) or s["element"][row] != [6, 1][k] or s["asym_atom"][row] != k:
            bad.append("row %d: cell/element/asym_atom misaligned" % row)
            break
        if not np.allclose(s["cart_pos"][row], uc.to_cartesian(s["frac_pos"][row][None])[0]):
            bad.append("cart_pos != frac_pos.direct")
            break
        got.add((k, *cell))
    if not bad and (got != want or len(s["frac_pos"]) != len(want)):
        bad.append("slab does not contain each (atom, cell) of the box exactly once")
    return bool(bad), bad


REPLAY = {"radius": replay_radius, "slab": replay_slab}


# ------------------------------------------------------------------------------------------
def _call_sites(mods):
    """(name, runner(cr, ex, r, D, Iv) -> list of (centre Cartesian terms)) for each query function."""
    O = lambda n, k: np.array([[Sym(z3.Real(("o%d_%d" if not k else "oo%d_%d") % (j, i))) for i in range(3)] for j in range(n)], dtype=object).view(OArr)

    def atoms_in_radius(cr, r, Iv):
        o = O(1, 0)
        return [o[0]], (lambda: cr.atoms_in_radius(r, origin=o[0]))

    def atomic_surroundings(cr, r, Iv):
        o = O(2, 0)
        cr.asymmetric_unit = FakeAsym(np.dot(o, Iv).view(OArr), [6, 8])
        return list(o), (lambda: cr.atomic_surroundings(radius=r))

    def molecule_environment(cr, r, Iv):
        o = O(2, 0)
        mol = FakeMol(o, [6, 8])
        return list(o), (lambda: cr.molecule_environment(mol, radius=r))

    def molecule_environments(cr, r, Iv):
        # the plural front end (the path Hirshfeld surfaces and shape descriptors take, with their own radius)
        o = O(2, 0)
        mol = FakeMol(o, [6, 8])
        cr.symmetry_unique_molecules = lambda: [mol]
        return list(o), (lambda: cr.molecule_environments(radius=r)[0])

    def atom_group_surroundings(cr, r, Iv):
        o = O(3, 0)
        mol = FakeMol(o, [6, 8, 1])
        cr.symmetry_unique_molecules = lambda: [mol]
        return [o[0], o[2]], (lambda: cr.atom_group_surroundings([0, 2], radius=r))

    def atoms_in_radius_again(cr, r, Iv):
        """a first query (completed, nothing within the radius) with one centre, then the same radius with another centre on
        the same crystal object: the second query must search cells from its own centre"""
        o1, o2 = O(1, 0), O(1, 1)

        class NoHits:
            def __init__(self, pts, *a, **k):
                pass

            def query_ball_point(self, x, rr, *a, **k):
                return []

        def fn():
            raising = cr.slab
            one = np.array([[Sym(z3.Real("far%d" % k)) for k in range(3)]], dtype=object).view(OArr)
            cr.slab = lambda bounds=None, **k: {"frac_pos": one, "cart_pos": one, "element": np.array([6]), "asym_atom": np.array([0]), "symop": np.array([16484]),
                                               "label": np.array(["X"]), "occupation": np.array([1.0]), "cell": np.zeros((1, 3)), "n_uc": 1, "n_cells": 1}
            oldkd = mods.cm.KDTree
            mods.cm.KDTree = NoHits
            try:
                cr.atoms_in_radius(r, origin=o1[0])
            finally:
                mods.cm.KDTree = oldkd
                cr.slab = raising
            return cr.atoms_in_radius(r, origin=o2[0])
        return [o2[0]], fn

    return [("atoms_in_radius", atoms_in_radius), ("atomic_surroundings", atomic_surroundings),
            ("molecule_environment", molecule_environment), ("molecule_environments", molecule_environments),
            ("atom_group_surroundings", atom_group_surroundings),
            ("atoms_in_radius (second query, other centre)", atoms_in_radius_again)]


def lemma_A(ctx, mods, only=None):
    ctx.bound("(A) completeness: no bound on the cell (any invertible direct matrix with its inverse), radius > 0, centres anywhere; "
              "1-3 centres per query")
    tasks, meta = [], []
    for name, site in _call_sites(mods):
        if only is not None and name not in only:
            continue
        ex = Explorer()
        ex.fresh_rounding = True
        uc, D, Iv, L = symbolic_cell(mods, ex)
        cr = make_crystal(mods, uc)
        r = Sym(z3.Real("r"))
        ex.base = [r.t > 0]

        def slab_stub(bounds=None, **k):
            raise _Captured(bounds)
        cr.slab = slab_stub
        centres, fn = site(cr, r, Iv)
        paths = ex.run(fn)
        ctx.add_paths(ex)
        for p in paths:
            if not isinstance(p.exc, _Captured):
                if "second query" in name and p.exc is None:
                    ctx.record("A:%s: the second query computes the cells to search from its own centre" % name, "counterexample", nontrivial=True)
                    ctx.violation("radius:repeat", "atoms_in_radius called again with the same radius and another centre does not search cells around the new centre",
                                  {"D": [[6.0, 0, 0], [1.0, 7.0, 0], [0.5, 1.5, 8.0]], "r": 5.0, "origin": [0.3, 0.4, 0.2], "origin2": [14.5, -9.1, 4.7],
                                   "frac": [[0.1, 0.2, 0.3], [0.6, 0.7, 0.85]], "Z": [6, 8], "which": "atoms_in_radius"}, replay_radius)
                    continue
                ctx.harness_error("%s: slab bounds not captured (%r)" % (name, p.exc or p.value))
                continue
            (lo, hi) = p.exc.bounds
            d = [Sym(z3.Real("d%d" % k)) for k in range(3)]
            f = [Sym(z3.Real("f%d" % k)) for k in range(3)]
            geo = [(d[0] * d[0] + d[1] * d[1] + d[2] * d[2] <= r * r).t]
            for j, o in enumerate(centres):
                for i in range(3):
                    n_i = sum((o[k] + d[k]) * Iv[k, i] for k in range(3)) - f[i]
                    hyp = p.pc + geo + [f[i].t >= 0, f[i].t < 1]
                    for side, goal in (("upper", n_i <= hi[i]), ("lower", n_i > lo[i] - 1)):
                        tasks.append(dict(name="A:%s centre %d axis %d %s bound covers every image within the radius (real relaxation of ceil/floor)"
                                          % (name, j, i, side), assumptions=hyp, goal=goal.t, ex=ex, timeout=ctx.default_timeout))
                        meta.append((name, ex, p, centres, j, i, side, n_i, lo, hi, d, f, r, D, Iv, L))
        ex.drop_isint = True
    res = ctx.query_many(tasks)
    # for every failed / undecided relaxed lemma: exact counterexample search (integers kept), one per call site
    done = set()
    cex_tasks, cex_meta = [], []
    for t, mt, rr in zip(tasks, meta, res):
        name, ex, p, centres, j, i, side, n_i, lo, hi, d, f, r, D, Iv, L = mt
        if rr.verdict == "holds" or (name, i) in done:
            continue
        done.add((name, i))
        ex.drop_isint = True
        box = [z3.And(x.t >= -12, x.t <= 12) for x in D.flat] + [r.t <= 12, r.t >= 1] + [l.t >= 2 for l in L]
        box += [D[0, 1].t == 0, D[0, 2].t == 0, D[1, 2].t == 0, D[0, 0].t > 0, D[1, 1].t > 0, D[2, 2].t > 0]
        box += [z3.And(o[k].t >= -10, o[k].t <= 10) for o in centres for k in range(3)]
        geo = [(d[0] * d[0] + d[1] * d[1] + d[2] * d[2] <= r * r * Fraction(9, 10)).t]
        tie = []
        for k in range(3):
            tie += ex.defs["len%d" % k]
        tie += ex.defs["D00"]
        # integer-free sufficient condition for a missed image: with hi < X+1 for every ceil argument X (lo > Y-1 for every
        # floor argument Y), the atom's own fractional part can be chosen so that its cell index is floor(g): a violation exists
        # if g >= hi_sub + 1 (g <= lo_sub - 1) where *_sub replaces each rounding symbol by that bound
        g_i = sum((centres[j][k] + d[k]) * Iv[k, i] for k in range(3))
        subs = []
        for nm, (kind, xr) in ex.rounding.items():
            subs.append((z3.Real(nm), xr + 1 if kind == "ceil" else xr - 1))
        if side == "upper":
            bnd = z3.substitute(Sym._lift(hi[i]).real(), *subs) if subs else Sym._lift(hi[i]).real()
            viol = g_i.t >= bnd + 1
        else:
            bnd = z3.substitute(Sym._lift(lo[i]).real(), *subs) if subs else Sym._lift(lo[i]).real()
            viol = g_i.t <= bnd - 1
        cex_tasks.append(dict(name="A:%s axis %d: exact search for a missed image (integers kept, cell boxed)" % (name, i),
                              assumptions=p.pc + geo + box + tie + [viol], expect="sat", expect_strict=None, ex=ex,
                              timeout=max(120, ctx.default_timeout), extract=_extract_A(centres, j, d, r, D)))
        cex_meta.append((name, i))
    if cex_tasks:
        cres = ctx.query_many(cex_tasks)
        reported = set()
        for (name, i), rr in zip(cex_meta, cres):
            if rr.verdict == "cex" and name not in reported:
                data = rr.model
                data["which"] = name.split(" (")[0]
                if ctx.violation("radius:frac_radius:%s" % name, "%s searches too few cells: an image within the radius lies outside the slab (axis %d)" % (name, i),
                                 data, replay_radius):
                    reported.add(name)
            elif rr.verdict != "cex":
                # second search: concrete cells with rational lengths, displacement along one Cartesian axis, integers kept (LIRA)
                found = None
                for mt in [m_ for m_ in meta if m_[0] == name and m_[5] == i]:
                    found = _concrete_cell_search(ctx, mt)
                    if found:
                        break
                if found and name not in reported:
                    found["which"] = name.split(" (")[0]
                    if ctx.violation("radius:frac_radius:%s" % name, "%s searches too few cells: an image within the radius lies outside the slab (axis %d)" % (name, i),
                                     found, replay_radius):
                        reported.add(name)
                elif not found:
                    ctx.mark_inconclusive("A:%s axis %d" % (name, i), "relaxed lemma not proved and neither search found a counterexample")


def _concrete_cell_search(ctx, mt):
    """counterexample search for the completeness lemma on concrete cells (rational lengths), displacement along +-x, +-y, +-z,
    symbolic centres / radius, integer cell index kept: linear integer-real arithmetic"""
    name, ex, p, centres, j, i, side, n_i, lo, hi, d, f, r, D, Iv, L = mt
    cells = [np.array([[4, 0, 0], [0, 5, 0], [0, 0, 6]], dtype=object), np.array([[5, 0, 0], [0, 6, 0], [3, 0, 4]], dtype=object),
             np.array([[13, 0, 0], [0, 3, 0], [0, 0, 7]], dtype=object)]
    for M in cells:
        Mf = [[Fraction(int(x)) for x in row] for row in M]
        from .c01 import _inv3
        inv = _inv3(Mf)
        lens = [Fraction(int(round(math.sqrt(sum(float(x) ** 2 for x in row))))) for row in Mf]
        subs = []
        for a in range(3):
            for b in range(3):
                subs.append((D[a, b].t, z3.RealVal(Mf[a][b])))
                subs.append((Iv[a, b].t, z3.RealVal(inv[3 * a + b])))
            subs.append((L[a].t, z3.RealVal(lens[a])))
        for axis in range(3):
            for sgn in (1, -1):
                tt = z3.Real("t_disp")
                dsub = [(d[k].t, (sgn * tt if k == axis else z3.RealVal(0))) for k in range(3)]
                allsub = subs + dsub
                g_i = sum((centres[j][k] + d[k]) * Iv[k, i] for k in range(3))
                hyp = list(p.pc) + [f[i].t >= 0, f[i].t < 1, tt >= 0, tt <= r.t * z3.RealVal("9/10"), r.t >= 1, r.t <= 12, z3.IsInt((g_i - f[i]).t)]
                hyp += [z3.And(o[k].t >= -10, o[k].t <= 10) for o in centres for k in range(3)]
                viol = (n_i > hi[i]).t if side == "upper" else (n_i <= lo[i] - 1).t
                forms = hyp + [viol]
                old_drop = ex.drop_isint
                ex.drop_isint = False
                forms = forms + ex.cone(forms)
                ex.drop_isint = old_drop
                forms = [z3.substitute(z3.substitute(fm, *dsub), *subs) for fm in forms]
                s_ = z3.Solver()
                s_.set("timeout", 20000)
                s_.add(*forms)
                t0 = time.time()
                res = str(s_.check())
                ctx.record("A:%s axis %d %s: counterexample search on the cell %s, displacement along %s%s (integers kept)" % (name, i, side, [[int(x) for x in row] for row in M], "+" if sgn > 0 else "-", "xyz"[axis]),
                           {"sat": "counterexample", "unsat": "holds", "unknown": "unknown"}[res], seconds=time.time() - t0, nontrivial=True, solver="z3 " + z3.get_version_string())
                if res == "sat":
                    mdl = s_.model()
                    Dv = np.array([[float(x) for x in row] for row in Mf])
                    cs = np.array([[float(model_value(mdl, o[k].t)) for k in range(3)] for o in centres])
                    tv = float(model_value(mdl, tt))
                    dv = np.array([sgn * tv if k == axis else 0.0 for k in range(3)])
                    pnt = cs[j] + dv
                    invf = np.linalg.inv(Dv)
                    g = pnt @ invf
                    cf = cs @ invf
                    return {"D": Dv.tolist(), "r": float(model_value(mdl, r.t)), "origin": cs[0].tolist(), "frac": (cf - np.floor(cf)).tolist() + [list(g - np.floor(g))],
                            "Z": [6] * len(cs) + [8], "centres": cs.tolist(), "p": pnt.tolist()}
    return None


def _extract_A(centres, j, d, r, D):
    def ext(mdl):
        Dv = np.array([[float(model_value(mdl, D[a, b].t)) for b in range(3)] for a in range(3)])
        cs = np.array([[float(model_value(mdl, o[k].t)) for k in range(3)] for o in centres])
        dv = np.array([float(model_value(mdl, x.t)) for x in d])
        p = cs[j] + dv
        inv = np.linalg.inv(Dv)
        g = p @ inv
        fr = [list(g - np.floor(g))]
        cf = cs @ inv
        # the centres themselves must be atoms for the molecule/site based queries
        return {"D": Dv.tolist(), "r": float(model_value(mdl, r.t)), "origin": cs[0].tolist(),
                "frac": (cf - np.floor(cf)).tolist() + fr, "Z": [6] * len(cs) + [8], "centres": cs.tolist(), "p": p.tolist()}
    return ext


def lemma_B(ctx, mods):
    """slab layout: rows = unit-cell atoms x cells of the box, aligned arrays."""
    ctx.bound("(B) slab layout: 2 unit-cell atoms with symbolic positions, every bound box inside [-1,1]^3 (216 boxes, forked), symbolic cell matrix")
    ex = Explorer(max_paths=400, int_fork_bound=8)
    uc, D, Iv, L = symbolic_cell(mods, ex)
    cr = make_crystal(mods, uc)
    up = _mat("u", 2, 3)
    atoms = {"asym_atom": np.array([0, 1]), "frac_pos": up, "element": np.array([6, 1]), "symop": np.array([16484, 3198]),
             "label": np.array(["C1", "H1"]), "occupation": np.array([1.0, 0.5]), "cart_pos": np.dot(up, D)}
    cr.unit_cell_atoms = lambda *a, **k: atoms
    lo = [Sym(z3.Int("lo%d" % i)) for i in range(3)]
    hi = [Sym(z3.Int("hi%d" % i)) for i in range(3)]
    ex.base = [z3.And(lo[i].t >= -1, hi[i].t <= 1, lo[i].t <= hi[i].t) for i in range(3)]
    t0 = time.time()
    paths = ex.run(lambda: cr.slab(bounds=(tuple(lo), tuple(hi))))
    ctx.add_paths(ex)
    nbad = 0
    goals = []
    for p in paths:
        if p.exc is not None:
            ctx.harness_error("slab raised symbolically: %r" % (p.exc,))
            return
        s = p.value
        # concrete bounds on this path
        sol = z3.Solver()
        sol.add(*p.pc)
        assert str(sol.check()) == "sat"
        mdl = sol.model()
        lov = [mdl.eval(x.t, model_completion=True).as_long() for x in lo]
        hiv = [mdl.eval(x.t, model_completion=True).as_long() for x in hi]
        want = set(itertools.product(*[range(a, b + 1) for a, b in zip(lov, hiv)]))
        ncell = len(want)
        ok = s["n_uc"] == 2 and s["n_cells"] == ncell and len(s["frac_pos"]) == 2 * ncell
        cells_seen = []
        eqs = []
        if ok:
            for i in range(ncell):
                cell = tuple(int(x) for x in np.asarray(s["cell"][2 * i], float))
                cells_seen.append(cell)
                for k in range(2):
                    row = 2 * i + k
                    ok = ok and tuple(int(x) for x in np.asarray(s["cell"][row], float)) == cell
                    ok = ok and s["element"][row] == atoms["element"][k] and s["asym_atom"][row] == k and s["label"][row] == atoms["label"][k]
                    ok = ok and s["symop"][row] == atoms["symop"][k] and s["occupation"][row] == atoms["occupation"][k]
                    for c in range(3):
                        eqs.append((s["frac_pos"][row, c] == up[k, c] + cell[c]).t)
                        eqs.append((s["cart_pos"][row, c] == sum((up[k, q] + cell[q]) * D[q, c] for q in range(3))).t)
            ok = ok and set(cells_seen) == want and len(cells_seen) == len(want)
        if not ok:
            nbad += 1
            ctx.violation("slab:layout", "slab rows are not (unit-cell atom x cell) of the requested box", {"lo": lov, "hi": hiv}, replay_slab)
        else:
            goals.append((lov, hiv, z3.And(eqs)))
    # positions: one identity query per box, discharged in parallel
    tasks = [dict(name="B:slab box %s..%s: frac_pos = uc + cell, cart_pos = frac_pos.direct [identity]" % (a, b), assumptions=[], goal=g,
                  vacuity=False, extract=lambda m, a=a, b=b: {"lo": a, "hi": b}) for a, b, g in goals]
    res = ctx.query_many(tasks)
    for t, r in zip(tasks, res):
        if r.verdict == "cex":
            ctx.violation("slab:layout", "slab positions are not unit-cell position + cell", r.model, replay_slab)
    ctx.record("B:slab structure (cells = box exactly once, tiled arrays aligned) on %d boxes" % len(paths),
               "holds" if nbad == 0 else "counterexample", seconds=time.time() - t0, nontrivial=True)


def run(ctx):
    from chmpy.crystal.crystal import Crystal
    from chmpy.util.num import cartesian_product
    ctx.encode(Crystal.atoms_in_radius, Crystal.atomic_surroundings, Crystal.atom_group_surroundings, Crystal.molecule_environment, Crystal.molecule_environments,
               Crystal.slab, cartesian_product, Crystal.to_fractional, Crystal.to_cartesian)
    ctx.assume("mathematical reals stand in for IEEE doubles")
    ctx.stub("unit cell = symbolic direct matrix D, inverse I with D.I = I.D = 1 and lengths = row norms (the invariant C12 establishes); "
             "slab() replaced by a stub capturing the bounds in lemma A; KD-tree answers are symbolic predicates in lemma C")
    ctx.out_of_scope("floating-point rounding; functional_group_surroundings (needs graph_tool); images exactly at distance = radius")
    mods = Mods()
    # fidelity: shimmed crystal module reproduces the real one on a concrete structure
    from chmpy.crystal import Crystal as RC, UnitCell, SpaceGroup, AsymmetricUnit
    from chmpy.core.element import Element
    uc = UnitCell.from_lengths_and_angles([5.0, 6.0, 7.0], [1.3, 1.8, 1.2])
    asym = AsymmetricUnit([Element[6], Element[1]], np.array([[0.1, 0.2, 0.3], [0.6, 0.7, 0.85]]))
    c1 = RC(uc, SpaceGroup(1), asym)
    c2 = mods.cm.Crystal(uc, SpaceGroup(1), asym)
    a, b = c1.atoms_in_radius(4.0, origin=(1.0, 2.0, 3.0)), c2.atoms_in_radius(4.0, origin=(1.0, 2.0, 3.0))
    ctx.fidelity_check("shimmed crystal.py == real on a concrete triclinic cell", np.allclose(a["cart_pos"], np.asarray(b["cart_pos"], float)))
    from . import c03_select
    secs = [("A", lambda c: lemma_A(c, mods)), ("B", lambda c: lemma_B(c, mods))]
    secs += [("C:" + w, (lambda c, w=w: c03_select.lemma_C(c, mods, only=w)))
             for w in ("atoms_in_radius", "atomic_surroundings", "molecule_environment", "molecule_environments", "atom_group_surroundings")]
    ctx.parallel_sections(secs)


def dependency_sections(which):
    """sections other properties run because they rest on these lemmas (the violations keep C03's replay functions)"""
    out = []
    if "slab" in which:
        out.append(("dependency: slab layout (C03 lemma B)", lambda c: lemma_B(c, Mods())))
    sites = sorted(w for w in which if w in ("molecule_environment", "molecule_environments", "atomic_surroundings", "atom_group_surroundings", "atoms_in_radius"))
    for w in sites:
        out.append(("dependency: cells searched by %s (C03 lemma A)" % w, (lambda c, w=w: lemma_A(c, Mods(), only={w}))))
    return out
