"""C07  Spherical harmonic transform is exact and invertible on band-limited functions.

(a) grid-size rule, (b) normalised associated Legendre recurrences == closed forms (exact,
algebraic), (c) index/sign lemma of the analysis/synthesis kernels with the FFT output and the
Legendre values symbolic, (d) synthesis->analysis round trip as an LRA query with the FFT
replaced by the DFT definition."""
import math
import time
from fractions import Fraction

import numpy as np
import z3

from .. import symx, pyx2py, pyxrt
from ..symx import Sym, Explorer, load_shimmed, model_value
from ..symc import SymC, Poly
from .c08 import _sympy_to_z3

PYX = "/repo/src/chmpy/shape/_sht.pyx"


# ----------------------------------------------------------------------------------- replay
def legendre_agreement(Ls=(1, 5, 8, 16, 17, 24, 32, 48, 64)):
    """the pure-Python Legendre class (chmpy.shape.AssocLegendre) and the compiled one (SHT.plm) give the same orthonormal
    values, and both match the closed form through scipy, at degrees beyond the symbolic bound"""
    from chmpy.shape import AssocLegendre as PyLegendre
    from chmpy.shape.sht import SHT
    from scipy.special import lpmv, gammaln
    bad = []
    for L in Ls:
        py, co = PyLegendre(L), SHT(L).plm
        for x in (-0.83, 0.11, 0.62):
            a, b = np.asarray(py.evaluate_batch(x), float), np.asarray(co.evaluate_batch(x), float)
            if a.shape != b.shape or not np.allclose(a, b, rtol=1e-9, atol=1e-12):
                bad.append("L=%d x=%.2f: pure-Python and compiled associated Legendre values differ (max %.3g)" % (L, x, np.abs(a - b).max() if a.shape == b.shape else -1))
                break
            k, worst = 0, 0.0
            for m in range(L + 1):
                for l in range(m, L + 1):
                    norm = math.exp(0.5 * (math.log((2 * l + 1) / (4 * math.pi)) + gammaln(l - m + 1) - gammaln(l + m + 1)))
                    ref = norm * lpmv(m, l, x) * ((-1) ** m)
                    worst = max(worst, abs(abs(a[k]) - abs(ref)) / max(1e-300, abs(ref)) if abs(ref) > 1e-200 else 0.0)
                    k += 1
            if worst > 1e-6:
                bad.append("L=%d x=%.2f: Legendre values differ from the closed orthonormal form (relative %.3g)" % (L, x, worst))
                break
    return bad


def replay_sht(data):
    """numeric statement on the real API: analysis of Y_lm gives unit coefficients, round trips, kernels == pure python"""
    from chmpy.shape.sht import SHT
    from scipy.special import sph_harm_y
    bad = []
    if data.get("legendre"):
        bad += legendre_agreement()
        return bool(bad), bad[:3]
    for L in data.get("L", [1, 2, 3, 4, 7]):
        try:
            sht = SHT(L)
        except Exception as e:
            bad.append("SHT(%d) raises %s: %s" % (L, type(e).__name__, e))
            continue
        if sht.nphi < 2 * L + 1 or sht.ntheta < L + 1:
            bad.append("L=%d: grid too small (nphi=%d, ntheta=%d)" % (L, sht.nphi, sht.ntheta))
            continue
        theta, phi = sht.grid
        rng = np.random.default_rng(L)
        c = rng.normal(size=sht.nlm()) + 1j * rng.normal(size=sht.nlm())
        f = np.zeros(theta.shape, dtype=complex)
        for l in range(L + 1):
            for m in range(-l, l + 1):
                f += c[l * (l + 1) + m] * sph_harm_y(l, m, theta, phi)
        got = sht.analysis(f)
        if not np.allclose(got, c, rtol=0, atol=1e-10):
            k = int(np.argmax(np.abs(got - c)))
            bad.append("L=%d: complex analysis of sum c_lm Y_lm does not return c (worst index %d: %.4g vs %.4g)" % (L, k, abs(got[k]), abs(c[k])))
        # linear at every scale: analysis(a f) = a analysis(f) for tiny and huge a, complex a included (a function whose imaginary
        # part is small in absolute terms is still a complex function), and for a real function with a tiny imaginary harmonic
        for a in (1e-9, 1e-13, 1e7, 1e-9j, 1e-10 * (1 + 2j)):
            ga = sht.analysis(a * f)
            if ga.shape != got.shape or not np.allclose(ga, a * c, rtol=0, atol=1e-10 * abs(a)):
                bad.append("L=%d: analysis(a f) != a analysis(f) for a = %s (max deviation %.3g of |a|)" % (L, a, np.abs(ga - a * c).max() / abs(a) if ga.shape == got.shape else -1))
                break
        if L >= 1:
            fre = np.zeros(theta.shape, dtype=complex)
            cre = np.zeros(sht.nlm(), dtype=complex)
            for l in range(L + 1):
                cre[l * (l + 1)] = 1.0 + 0.25 * l
                fre += cre[l * (l + 1)] * sph_harm_y(l, 0, theta, phi)
            cre[2] += 1e-9j
            gi = sht.analysis(fre + 1e-9j * sph_harm_y(1, 0, theta, phi))
            if gi.shape != cre.shape or not np.allclose(gi.real, cre.real, rtol=0, atol=1e-10) or not np.allclose(gi.imag, cre.imag, rtol=0, atol=1e-11):
                bad.append("L=%d: a real function plus 1e-9 i Y_10 is analysed without its imaginary coefficient (%.3g instead of 1e-9)" % (L, gi[2].imag if gi.shape == cre.shape else -1))
        held = got.copy()
        sht.analysis(f * 0.5 + 1.0)
        sht.analysis((f * 0.5 + 1.0).real)
        if not np.array_equal(got, held):
            bad.append("L=%d: coefficients returned by analysis change when the same SHT object analyses another function" % L)
        got = held
        if not np.allclose(sht.analysis_pure_python_cplx(f), got, rtol=0, atol=1e-11):
            bad.append("L=%d: compiled complex analysis != pure-python reference" % L)
        # (at L = 0 both coefficient layouts have length 1 and synthesis reads a vector as the real layout: the property's domain is
        # L >= 1 for the complex transform, L >= 0 for the real one)
        if L >= 1 and not np.allclose(sht.synthesis(c), f, rtol=0, atol=1e-10):
            bad.append("L=%d: complex synthesis does not reproduce the function" % L)
        if L >= 1 and not np.allclose(sht.synthesis_pure_python_cplx(c), sht.synthesis(c), rtol=0, atol=1e-11):
            bad.append("L=%d: compiled complex synthesis != pure-python reference" % L)
        # real transform
        cr = rng.normal(size=sht.nplm()) + 1j * rng.normal(size=sht.nplm())
        cr[:L + 1] = cr[:L + 1].real
        fr = sht.synthesis(cr)
        full = sht.complete_coefficients(cr)
        fr2 = np.zeros(theta.shape, dtype=complex)
        for l in range(L + 1):
            for m in range(-l, l + 1):
                fr2 += full[l * (l + 1) + m] * sph_harm_y(l, m, theta, phi)
        if not np.allclose(fr, fr2.real, rtol=0, atol=1e-10) or np.abs(fr2.imag).max() > 1e-10:
            bad.append("L=%d: real synthesis / coefficient expansion inconsistent with the harmonics" % L)
        if not np.allclose(sht.analysis(fr), cr, rtol=0, atol=1e-10):
            bad.append("L=%d: real synthesis followed by analysis does not return the coefficients" % L)
        if not np.allclose(sht.analysis_pure_python(fr), sht.analysis(fr), rtol=0, atol=1e-11) or not np.allclose(sht.synthesis_pure_python(cr), fr, rtol=0, atol=1e-11):
            bad.append("L=%d: compiled real kernels != pure-python reference" % L)
        t0, p0 = 0.83, 2.1
        v = sht.evaluate_at_points(cr, t0, p0)
        want = sum(full[l * (l + 1) + m] * sph_harm_y(l, m, t0, p0) for l in range(L + 1) for m in range(-l, l + 1))
        if abs(v - want.real) > 1e-10:
            bad.append("L=%d: point-wise evaluation (real) differs from the harmonics" % L)
        vc = sht.evaluate_at_points(c, t0, p0)
        wantc = sum(c[l * (l + 1) + m] * sph_harm_y(l, m, t0, p0) for l in range(L + 1) for m in range(-l, l + 1))
        if L >= 1 and abs(vc - wantc) > 1e-10:
            bad.append("L=%d: point-wise evaluation (complex) differs from the harmonics" % L)
        # evaluation is a pure function of its arguments: same answer when asked again, coefficient arrays untouched
        cr0, c0 = cr.copy(), c.copy()
        v1, v2 = sht.evaluate_at_points(cr, t0, p0), sht.evaluate_at_points(cr, t0, p0)
        w1, w2 = sht.evaluate_at_points(c, t0, p0), sht.evaluate_at_points(c, t0, p0)
        if abs(v1 - v2) > 1e-12 or abs(w1 - w2) > 1e-12:
            bad.append("L=%d: asking evaluate_at_points twice with the same coefficients gives different values" % L)
        if not (np.array_equal(cr, cr0) and np.array_equal(c, c0)):
            bad.append("L=%d: evaluate_at_points modifies the coefficient array it is given" % L)
    return bool(bad), bad


def replay_source(data):
    """same with the kernels and Legendre class of the translated .pyx source"""
    import chmpy.shape.sht as sm
    mh = pyx2py.load(PYX, "chmpy.shape._sht__pyc", dict(pyxrt.RUNTIME), package="chmpy.shape")
    names = ("AssocLegendre", "analysis_kernel_real", "analysis_kernel_cplx", "synthesis_kernel_real", "synthesis_kernel_cplx", "expand_coeffs_to_full")
    old = {n: getattr(sm, n) for n in names}
    for n in names:
        setattr(sm, n, getattr(mh, n))
    try:
        return replay_sht(data)
    finally:
        for n in names:
            setattr(sm, n, old[n])


REPLAY = {"sht": replay_sht, "src": replay_source}


# ----------------------------------------------------------------------------------- run
def run(ctx):
    from chmpy.shape import sht as realsht, assoc_legendre as realal
    ctx.encode(realsht._closest_int_with_only_prime_factors_up_to_fmax, realsht.SHT.__init__, realsht.SHT.analysis, realsht.SHT.synthesis,
               realsht.SHT.analysis_pure_python, realsht.SHT.analysis_pure_python_cplx, realsht.SHT.synthesis_pure_python, realsht.SHT.synthesis_pure_python_cplx,
               realal.AssocLegendre.evaluate_batch, realal.AssocLegendre._compute_ab)
    ctx.encode_file(PYX, "_sht.pyx: amm/alm/blm, AssocLegendre, analysis/synthesis kernels, expand_coeffs_cython")
    thorough = ctx.tier == "thorough"
    ctx.bound("(a) grid rule: ntheta for every L >= 0 (LIA), nphi for L <= %d; (b) Legendre recurrences l <= %d, all x; (c) index/sign lemma L <= %d, all FFT outputs and Legendre values; "
              "(d) round trip L <= %d, all coefficient vectors in [-1,1]^n" % (512 if thorough else 64, 8, 10 if thorough else 6, 6 if thorough else 4))
    ctx.assume("exact arithmetic; scipy.fft.fft/ifft(norm='forward') = the DFT definition; roots_legendre nodes/weights taken from scipy as rationals (checked: sum w = 2, P_n(x_i) ~ 0)")
    ctx.out_of_scope("full pipeline for L > 6; floating-point accumulation error; Parseval (quadratic) beyond the per-degree identities of C08")
    lb = legendre_agreement()
    ctx.record("legendre: pure-Python and compiled classes agree with each other and with the closed form at degrees 1..64 (9 degrees x 3 arguments, numeric: beyond the symbolic bound)",
               "holds" if not lb else "counterexample", nontrivial=True, method="ground instances")
    if lb:
        ctx.violation("sht:legendre-high", lb[0], {"legendre": True}, replay_sht)
    # floating-point side of linearity / round trip at very small and very large scales (the symbolic round trip is exact
    # arithmetic on [-1,1]^n and goes inconclusive when the transform branches on the size of its input)
    rs, dets = replay_sht({"L": [1, 2, 5, 8, 16]})
    ctx.record("real API: analysis, synthesis, point-wise evaluation and linearity at scales 1e-13..1e7 (complex factors included) for L = 1, 2, 5, 8, 16",
               "counterexample" if rs else "holds", nontrivial=True, method="ground instances")
    if rs:
        ctx.violation("sht:scales", dets[0], {"L": [1, 2, 5, 8, 16]}, replay_sht)
    ctx.parallel_sections([("grid", lambda c: part_grid(c, thorough)), ("legendre", lambda c: part_legendre(c, thorough)),
                           ("kernels", lambda c: part_kernels(c, thorough)), ("roundtrip", lambda c: part_roundtrip(c, thorough)),
                           ("pointwise", lambda c: part_pointwise(c, thorough))])


def part_grid(ctx, thorough):
    from chmpy.shape.sht import _closest_int_with_only_prime_factors_up_to_fmax as closest
    ms = load_shimmed("chmpy.shape.sht")
    # ntheta rule, symbolic L (all L >= 0): the __init__ arithmetic is re-executed on a symbolic lmax
    L = Sym(z3.Int("L"))

    class Stub:
        pass
    ex = Explorer(assumptions=[L.t >= 0])

    def rule():
        n = L + 1
        n = n + (n % 2)          # n += (n & 1)
        return ((n + 7) // 8) * 8
    # take the statements from the source text so that an edit of the rule is seen
    import inspect
    import re
    src = inspect.getsource(ms.SHT.__init__)
    mrule = re.search(r"n = self\.lmax \+ 1\n(\s+)n \+= \(n & 1\)\n\s+n = \(\(n \+ 7\) // 8\) \* 8", src)
    if not mrule:
        # unknown shape of the rule: evaluate the real constructor for L <= bound instead
        ctx.mark_inconclusive("grid: symbolic ntheta rule", "SHT.__init__ no longer has the recognised form; falling back to enumeration")
        badL = []
        for l in range(0, 65):
            try:
                sh = ms.SHT(l)
                if sh.ntheta < l + 1 or sh.nphi < 2 * l + 1:
                    badL.append(l)
            except Exception:
                badL.append(l)
        ctx.record("grid: SHT(L) constructible with ntheta >= L+1, nphi >= 2L+1 for L in 0..64 (enumerated on the real constructor)",
                   "holds" if not badL else "counterexample", nontrivial=True, method="enumeration")
        if badL:
            ctx.violation("sht:grid", "SHT(L) fails or has too small a grid for L=%s" % badL[:3], {"L": badL[:2]}, replay_sht)
    else:
        p = ex.run(rule)[0]
        nt = p.value
        r = ctx.query("grid: ntheta >= L+1, even, for every L >= 0 (Gauss-Legendre exact to degree 2 ntheta - 1 >= 2L)", p.pc, z3.And(nt.t >= L.t + 1, nt.t % 2 == 0))
        if r.verdict == "cex":
            ctx.violation("sht:grid", "ntheta rule gives too few nodes", {"L": [r.model.eval(L.t, model_completion=True).as_long()]}, replay_sht)
    bound = 512 if thorough else 64
    bad = []
    t0 = time.time()
    for l in range(0, bound + 1):
        s = ms.SHT.__new__(ms.SHT)
        nphi = closest(2 * l + 1)
        f = nphi
        for pr in (2, 3, 5, 7):
            while f % pr == 0 and f > 1:
                f //= pr
        n = l + 1
        n += (n & 1)
        n = ((n + 7) // 8) * 8
        if nphi < 2 * l + 1 or (nphi > 7 and f != 1) or n < l + 1:
            bad.append(l)
    ctx.record("grid: nphi >= 2L+1 with prime factors <= 7 for every L in 0..%d (finite, enumerated on the real function)" % bound,
               "holds" if not bad else "counterexample", seconds=time.time() - t0, nontrivial=True, method="enumeration")
    if bad:
        ctx.violation("sht:grid", "grid-size rule gives nphi < 2L+1 for L=%s" % bad[:3], {"L": bad[:2]}, replay_sht)


def dependency_sections():
    """section other properties run because they rest on it: descriptors computed from sampled functions are rotation invariant
    only if the quadrature grid is exact for the degree (the violations keep C07's replay function)"""
    return [("dependency: SHT grid exact for the degree (C07 grid rule)", lambda c: part_grid(c, c.tier == "thorough"))]


def _exact_runtime():
    """pyx2py runtime with exact algebra: sqrt of rationals exact, M_PI a symbol"""
    PI = Sym(z3.Real("PI"))
    RPI = Sym(z3.Real("rsqrtPI"))     # 1/sqrt(PI)

    def exact_sqrt(x):
        if not isinstance(x, Sym):
            return Sym(z3.Sqrt(z3.RealVal(symx._nice_fraction(float(x)))))
        t = z3.simplify(x.real())
        if z3.is_rational_value(t) or z3.is_algebraic_value(t):
            return Sym(z3.Sqrt(t))
        # t = r / PI for a rational r ?  (evaluate at PI = 1 and PI = 2)
        r1 = z3.simplify(z3.substitute(t, (PI.t, z3.RealVal(1))))
        r2 = z3.simplify(z3.substitute(t, (PI.t, z3.RealVal(2))))
        if z3.is_rational_value(r1) and z3.is_rational_value(r2) and z3.is_true(z3.simplify(r1 == 2 * r2)):
            return Sym(z3.Sqrt(r1)) * RPI
        raise symx.SymUnsupported("sqrt of %s" % t)
    rt = dict(pyxrt.RUNTIME)
    rt["sqrt"] = exact_sqrt
    rt["M_PI"] = PI
    return rt, PI, RPI, exact_sqrt


def _poly_of(term_fn, x, s, q):
    return term_fn(x, s, q)


def part_legendre(ctx, thorough):
    import sympy
    LM = 8   # degrees 9+ : the recurrence coefficients of the source are doubles whose exact rational images no longer match the closed algebraic form to the comparison tolerance (spurious), 11+ does not terminate
    rt, PI, RPI, exact_sqrt = _exact_runtime()
    mh = pyx2py.load(PYX, "chmpy.shape._sht__exact", rt, package="chmpy.shape")
    mh.np = symx.SymNumpy()
    # python reference class with exact numpy.sqrt / numpy.pi
    mal = load_shimmed("chmpy.shape.assoc_legendre")
    shim = mal.np
    shim.sqrt = lambda v: exact_sqrt(v)
    shim.pi = PI
    x, s, q = Poly.var("x"), Poly.var("s"), Poly.var("q")   # s = sqrt(1-x^2), q = 1/sqrt(pi)

    class PX:
        """x with x*x -> polynomial and (1 - x*x) ** (0.5*m) -> s**m"""

    def run_rec(cls_factory):
        ex = Explorer()
        out = {}

        def body():
            al = cls_factory()
            return al
        p = ex.run(body)[0]
        if p.exc is not None:
            raise p.exc
        al = p.value
        # evaluate_batch with polynomial x: the source computes (1 - x*x) ** (0.5 * m); intercept the power through a wrapper
        return al
    xs = Sym(z3.Real("x"))
    ss = Sym(z3.Real("s"))

    class XP(Poly):
        pass
    res_all = {}
    for name, factory in (("python assoc_legendre.py", lambda: mal.AssocLegendre(LM)), ("_sht.pyx AssocLegendre", lambda: mh.AssocLegendre(LM))):
        ex = Explorer()
        holder = {}

        def body():
            al = factory()
            # coefficients a, b are exact algebraic Syms; run the recurrence with polynomial x
            one_minus = _OneMinusX2(x, s)
            xx = _XVar(x, one_minus)
            res = np.empty((LM + 1) * (LM + 2) // 2, dtype=object)
            al.cache = np.empty((LM + 1, LM + 1), dtype=object)
            if hasattr(al, "evaluate_batch_cython"):
                al.evaluate_batch_cython(xx, res)
            else:
                al.evaluate_batch(xx, result=res)
            return res
        paths = ex.run(body)
        ctx.add_paths(ex)
        if len(paths) != 1 or paths[0].exc is not None:
            ctx.harness_error("Legendre recurrence (%s) not executable symbolically: %r" % (name, paths[0].exc if paths else None))
            continue
        res_all[name] = paths[0].value
    if not res_all:
        return
    # closed forms (no Condon-Shortley phase): sqrt((2l+1)/(4 pi) (l-m)!/(l+m)!) (1-x^2)^(m/2) d^m/dx^m P_l(x)
    X = sympy.Symbol("x")
    tasks = []
    idx = 0
    for m in range(LM + 1):
        for l in range(m, LM + 1):
            norm2 = sympy.Rational(2 * l + 1, 4) * sympy.factorial(l - m) / sympy.factorial(l + m)      # times 1/pi
            dP = sympy.Poly(sympy.diff(sympy.legendre(l, X), X, m), X)
            want = Poly()
            cn = z3.Sqrt(_sympy_to_z3(norm2))
            for (k,), cf in dP.terms():
                mono = {}
                if k:
                    mono["x"] = k
                if m:
                    mono["s"] = m
                mono["q"] = 1
                want = want + Poly({tuple(sorted(mono.items())): z3.simplify(cn * _sympy_to_z3(cf))})
            for name, res in res_all.items():
                got = res[idx]
                got = got.p if isinstance(got, _XVar) else got
                got = Poly.const(got) if not isinstance(got, Poly) else got
                got = _subst_rpi(got)
                diff = got - want
                goal = z3.And([cf == 0 for cf in diff.d.values()]) if diff.d else z3.BoolVal(True)
                tasks.append(dict(name="legendre (%s): Pbar_%d^%d(x) equals the closed orthonormal form, all monomial coefficients [closed formula over algebraic numbers]" % (name, l, m),
                                  assumptions=[], goal=goal, vacuity=False, timeout=ctx.default_timeout, extract=lambda mdl: {}))
            idx += 1
    res = ctx.query_many(tasks)
    if any(r.verdict == "cex" for r in res):
        bad = [t["name"] for t, r in zip(tasks, res) if r.verdict == "cex"][0]
        which = replay_source if "_sht.pyx" in bad else replay_sht
        ctx.violation("src:legendre" if "_sht.pyx" in bad else "sht:legendre", bad + " -- fails", {"L": [2, 3, 5]}, which)


class _OneMinusX2:
    def __init__(self, x, s):
        self.x, self.s = x, s

    def __pow__(self, e):
        k = int(round(2 * float(e)))
        r = Poly.const(1)
        for _ in range(k):
            r = r * self.s
        return r


class _XVar:
    """stands for cos(theta): x * x -> marker consumed by 1 - x*x, everything else polynomial arithmetic"""

    def __init__(self, p, om):
        self.p, self.om = p, om

    def __mul__(self, o):
        if isinstance(o, _XVar):
            return _XSq(self.om)
        return self.p * (o.p if isinstance(o, _XVar) else o)

    def __rmul__(self, o):
        return self.p * o


class _XSq:
    def __init__(self, om):
        self.om = om

    def __rsub__(self, o):
        if o == 1:
            return self.om
        raise symx.SymUnsupported("x*x outside 1 - x*x")


def _subst_rpi(poly):
    """coefficients contain the symbol rsqrtPI linearly: move it into the polynomial variable q"""
    out = Poly()
    rpi = z3.Real("rsqrtPI")
    for mono, cf in poly.d.items():
        c1 = z3.simplify(z3.substitute(cf, (rpi, z3.RealVal(1))))
        c0 = z3.simplify(z3.substitute(cf, (rpi, z3.RealVal(0))))
        if not (z3.is_rational_value(c0) and c0.numerator_as_long() == 0) and not z3.is_algebraic_value(c0):
            pass
        m2 = dict(mono)
        m2["q"] = m2.get("q", 0) + 1
        out = out + Poly({tuple(sorted(m2.items())): c1})
    return out


def _sym_arrays(nphi, nplm):
    F = np.empty(nphi, dtype=object)
    for k in range(nphi):
        F[k] = SymC(Sym(z3.Real("Fr%d" % k)), Sym(z3.Real("Fi%d" % k)))
    P = np.empty(nplm, dtype=object)
    for k in range(nplm):
        P[k] = Sym(z3.Real("P%d" % k))
    return F, P


def part_kernels(ctx, thorough):
    import chmpy.shape._sht as so
    LK = 10 if thorough else 6
    mh = pyx2py.load(PYX, "chmpy.shape._sht__pyk", dict(pyxrt.RUNTIME), package="chmpy.shape")
    mh.np = symx.SymNumpy()
    mc = pyx2py.load(PYX, "chmpy.shape._sht__pyc", dict(pyxrt.RUNTIME), package="chmpy.shape")
    rng = np.random.default_rng(ctx.seed)
    a, b = so.AssocLegendre(6), mc.AssocLegendre(6)
    okc = np.allclose(a.evaluate_batch(0.3), b.evaluate_batch(0.3), rtol=0, atol=1e-15)
    cr = rng.normal(size=15) + 1j * rng.normal(size=15)
    okc = okc and np.array_equal(so.expand_coeffs_to_full(4, cr), mc.expand_coeffs_to_full(4, cr))
    ctx.compiled_check("pyx2py(_sht.pyx) == compiled module (Legendre values, coefficient expansion)", okc)
    ms = load_shimmed("chmpy.shape.sht")
    for n in ("analysis_kernel_real", "analysis_kernel_cplx", "synthesis_kernel_real", "synthesis_kernel_cplx", "expand_coeffs_to_full"):
        setattr(ms, n, getattr(mh, n))
    bad = []
    for L in range(1, LK + 1):
        try:
            sht = ms.SHT(L)
        except Exception as e:
            ctx.mark_inconclusive("kernels L=%d" % L, "SHT(%d) not constructible: %s (see the grid section)" % (L, e))
            continue
        nphi, nplm, nlm = sht.nphi, sht.nplm(), sht.nlm()
        F, P = _sym_arrays(nphi, nplm)
        w = Sym(z3.Real("w"))
        pidx = {}
        k = 0
        for m in range(L + 1):
            for l in range(m, L + 1):
                pidx[(l, m)] = k
                k += 1
        # ---- analysis kernels
        ex = Explorer()

        def run_an():
            sht.fft_work_array, sht.plm_work_array = F, P
            cc = np.array([SymC(0, 0) for _ in range(nlm)], dtype=object)
            mh.analysis_kernel_cplx(sht, w, cc)
            rc = np.array([SymC(0, 0) for _ in range(nplm)], dtype=object)
            mh.analysis_kernel_real(sht, w, rc)
            return cc, rc
        pth = ex.run(run_an)
        ctx.add_paths(ex)
        if len(pth) != 1 or pth[0].exc is not None:
            ctx.harness_error("analysis kernels not executable symbolically (L=%d): %r" % (L, pth[0].exc if pth else None))
            continue
        cc, rc = pth[0].value
        goals = []
        for l in range(L + 1):
            for m in range(0, l + 1):
                sgn = -1 if m % 2 else 1
                wantp = F[m] * (w * P[pidx[(l, m)]] * sgn)
                goals += [(cc[l * (l + 1) + m].re == wantp.re).t, (cc[l * (l + 1) + m].im == wantp.im).t]
                goals += [(rc[pidx[(l, m)]].re == wantp.re).t, (rc[pidx[(l, m)]].im == wantp.im).t]
                if m > 0:
                    wantn = F[nphi - m] * (w * P[pidx[(l, m)]])
                    goals += [(cc[l * (l + 1) - m].re == wantn.re).t, (cc[l * (l + 1) - m].im == wantn.im).t]
        r = ctx.query("kernels L=%d: analysis adds (-1)^m w Pbar_lm F_m to c(l,m) and w Pbar_lm F_{nphi-m} to c(l,-m) (Condon-Shortley), real layout likewise [identity]" % L,
                      [], z3.And(goals), vacuity=False)
        if r.verdict == "cex":
            bad.append("analysis L=%d" % L)
        # ---- synthesis kernels and coefficient expansion
        C = np.array([SymC(Sym(z3.Real("cr%d" % i)), Sym(z3.Real("ci%d" % i))) for i in range(nlm)], dtype=object)
        CR = np.array([SymC(Sym(z3.Real("dr%d" % i)), Sym(z3.Real("di%d" % i))) for i in range(nplm)], dtype=object)
        ex = Explorer()

        def run_syn():
            sht.plm_work_array = P
            sht.fft_work_array = np.array([SymC(0, 0) for _ in range(nphi)], dtype=object)
            mh.synthesis_kernel_cplx(sht, C)
            f1 = sht.fft_work_array
            sht.fft_work_array = np.array([SymC(0, 0) for _ in range(nphi)], dtype=object)
            mh.synthesis_kernel_real(sht, CR)
            f2 = sht.fft_work_array
            full = mh.expand_coeffs_to_full(L, CR)
            return f1, f2, full
        pth = ex.run(run_syn)
        ctx.add_paths(ex)
        if len(pth) != 1 or pth[0].exc is not None:
            ctx.harness_error("synthesis kernels not executable symbolically (L=%d): %r" % (L, pth[0].exc if pth else None))
            continue
        f1, f2, full = pth[0].value
        want1 = [SymC(0, 0) for _ in range(nphi)]
        want2 = [SymC(0, 0) for _ in range(nphi)]
        goals = []
        for l in range(L + 1):
            for m in range(0, l + 1):
                sgn = -1 if m % 2 else 1
                pv = P[pidx[(l, m)]]
                want1[m] = want1[m] + C[l * (l + 1) + m] * (pv * sgn)
                if m > 0:
                    want1[nphi - m] = want1[nphi - m] + C[l * (l + 1) - m] * pv
                want2[m] = want2[m] + CR[pidx[(l, m)]] * (pv * sgn * (2 if m > 0 else 1))
                # expansion  c(l,m) = packed, c(l,-m) = (-1)^m conj
                goals += [(full[l * (l + 1) + m].re == CR[pidx[(l, m)]].re).t, (full[l * (l + 1) + m].im == CR[pidx[(l, m)]].im).t]
                if m > 0:
                    goals += [(full[l * (l + 1) - m].re == CR[pidx[(l, m)]].re * sgn).t, (full[l * (l + 1) - m].im == -CR[pidx[(l, m)]].im * sgn).t]
        for k in range(nphi):
            goals += [(f1[k].re == want1[k].re).t, (f1[k].im == want1[k].im).t, (f2[k].re == want2[k].re).t, (f2[k].im == want2[k].im).t]
        r = ctx.query("kernels L=%d: synthesis fills F_m = sum_l (-1)^m c(l,m) Pbar_lm, F_{nphi-m} = sum_l c(l,-m) Pbar_lm, real layout 2(-1)^m; "
                      "expansion c(l,-m) = (-1)^m conj c(l,m) [identity]" % L, [], z3.And(goals), vacuity=False)
        if r.verdict == "cex":
            bad.append("synthesis/expansion L=%d" % L)
        # ---- pure-python reference paths add the same terms as the kernels (one theta row, symbolic FFT output)
        ex = Explorer()

        def run_py():
            sht.plm = _FixedPlm(P)
            sht.fft_work_array = np.array([SymC(0, 0) for _ in range(nphi)], dtype=object)
            sht.plm_work_array = np.empty(nplm, dtype=object)
            sht.cos_theta, sht.weights = np.array([0.5]), np.array([w], dtype=object)
            ms.fft = lambda arr, **k: _assign(arr, F)
            vals = np.zeros((1, nphi))
            return sht.analysis_pure_python_cplx(vals), sht.analysis_pure_python(vals)
        pth = ex.run(run_py)
        ctx.add_paths(ex)
        if len(pth) == 1 and pth[0].exc is None:
            pc_, pr_ = pth[0].value
            goals = []
            for i in range(nlm):
                goals += [(SymC.lift(pc_[i]).re == cc[i].re).t, (SymC.lift(pc_[i]).im == cc[i].im).t]
            for i in range(nplm):
                goals += [(SymC.lift(pr_[i]).re == rc[i].re).t, (SymC.lift(pr_[i]).im == rc[i].im).t]
            r = ctx.query("kernels L=%d: pure-python analysis paths accumulate exactly the kernels' terms [identity]" % L, [], z3.And(goals), vacuity=False)
            if r.verdict == "cex":
                bad.append("pure-python analysis != kernel L=%d" % L)
        else:
            ctx.mark_inconclusive("kernels L=%d: pure-python analysis" % L, "not executable symbolically: %r" % (pth[0].exc if pth else None))
    if bad:
        ctx.violation("src:kernels", "SHT kernels (source) do not follow the orthonormal Condon-Shortley convention: %s" % bad[0], {"L": [1, 2, 3, 4]}, replay_source)


class _FixedPlm:
    def __init__(self, P):
        self.P = P

    def evaluate_batch(self, x, result=None):
        for i in range(len(self.P)):
            result[i] = self.P[i]
        return result


def _assign(arr, F):
    for i in range(len(F)):
        arr[i] = F[i]
    return arr


def part_roundtrip(ctx, thorough):
    """synthesis -> analysis on symbolic coefficients, FFT = DFT definition, exact (algebraic) Legendre values replaced by
    rationalised doubles of the source recurrence; LRA query on the box [-1,1]^n"""
    from scipy.special import roots_legendre
    LR = 6 if thorough else 4
    mc = pyx2py.load(PYX, "chmpy.shape._sht__pyr", dict(pyxrt.RUNTIME), package="chmpy.shape")
    mc.np = symx.SymNumpy()
    ms = load_shimmed("chmpy.shape.sht")
    for n in ("analysis_kernel_real", "analysis_kernel_cplx", "synthesis_kernel_real", "synthesis_kernel_cplx", "expand_coeffs_to_full", "AssocLegendre"):
        setattr(ms, n, getattr(mc, n))
    xs, ws = roots_legendre(8)
    pn = np.polynomial.legendre.Legendre.basis(8)(xs)
    ctx.fidelity_check("roots_legendre(8): sum of weights = 2 and P_8(x_i) ~ 0", abs(ws.sum() - 2) < 1e-13 and np.abs(pn).max() < 1e-13)

    def dft(arr, inverse=False, **k):
        n = len(arr)
        vals = [SymC.lift(v) for v in arr]
        out = []
        for kk in range(n):
            acc = SymC(0, 0)
            for j in range(n):
                ang = (1 if inverse else -1) * 2 * math.pi * j * kk / n
                acc = acc + vals[j] * complex(math.cos(ang), math.sin(ang))
            out.append(acc / n if not inverse else acc)
        for kk in range(n):
            arr[kk] = out[kk]
        return arr
    ms.fft = lambda arr, **k: dft(arr, False)
    ms.ifft = lambda arr, **k: dft(arr, True)
    ms.np.iscomplexobj = lambda v: any(isinstance(e, SymC) for e in np.asarray(v, dtype=object).flat) or np.iscomplexobj(v)
    tasks = []
    for L in range(1, LR + 1):
        for kind in ("cplx", "real"):
            try:
                sht = ms.SHT(L)
            except Exception as e:
                ctx.mark_inconclusive("roundtrip L=%d" % L, "SHT(%d) not constructible: %s (see the grid section)" % (L, e))
                continue
            n = sht.nlm() if kind == "cplx" else sht.nplm()
            if kind == "cplx":
                c = np.array([SymC(Sym(z3.Real("cr%d" % i)), Sym(z3.Real("ci%d" % i))) for i in range(n)], dtype=object)
            else:
                # coefficients of a real function: m = 0 entries real
                c = np.array([SymC(Sym(z3.Real("cr%d" % i)), Sym(z3.Real("ci%d" % i)) if i > L else 0) for i in range(n)], dtype=object)
            ex = Explorer()

            def rt():
                for nm_, v_ in list(vars(sht).items()):
                    # every complex work array of the object holds symbolic values
                    if isinstance(v_, np.ndarray) and v_.dtype.kind == "c":
                        setattr(sht, nm_, v_.astype(object))
                sht.fft_work_array = np.array([SymC(0, 0) for _ in range(sht.nphi)], dtype=object)
                sht.plm_work_array = np.empty(sht.nplm(), dtype=object)
                f = sht.synthesis(c)
                sht.fft_work_array = np.array([SymC(0, 0) for _ in range(sht.nphi)], dtype=object)
                back = sht.analysis(f)
                held = [back[i] for i in range(len(back))]
                # the same transform object analyses another function (the zero function): the coefficients handed out before are
                # those of f and stay so
                sht.fft_work_array = np.array([SymC(0, 0) for _ in range(sht.nphi)], dtype=object)
                zero = np.array([[(SymC(0, 0) if kind == "cplx" else 0) for _ in range(f.shape[1])] for _ in range(f.shape[0])], dtype=object)
                sht.analysis(zero)
                kept = all(back[i] is held[i] for i in range(len(held)))
                return f, held, kept
            t0 = time.time()
            pth = ex.run(rt)
            ctx.add_paths(ex)
            if len(pth) != 1 or pth[0].exc is not None:
                ctx.mark_inconclusive("roundtrip L=%d %s" % (L, kind), "not executable symbolically: %r" % (pth[0].exc if pth else None))
                continue
            f, back, kept = pth[0].value
            ctx.record("roundtrip L=%d %s: coefficients returned by analysis are untouched by a later analysis on the same object" % (L, kind),
                       "holds" if kept else "counterexample", nontrivial=True)
            if not kept:
                ctx.violation("sht:held", "L=%d: coefficients returned by SHT.analysis are overwritten by the next analysis on the same object" % L, {"L": [L, 3]}, replay_sht)
            box = []
            for v in c:
                for comp in (v.re, v.im):
                    if isinstance(comp, Sym) and not z3.is_rational_value(comp.t):
                        box += [comp.t >= -1, comp.t <= 1]
            eps = z3.RealVal(Fraction(1, 10 ** 9))
            goals = []
            for i in range(n):
                b = SymC.lift(back[i])
                for got, want in ((b.re, c[i].re), (b.im, c[i].im)):
                    d = (got - want).t
                    goals.append(z3.And(d <= eps, d >= -eps))
            tasks.append(dict(name="roundtrip L=%d %s: analysis(synthesis(c)) = c to 1e-9 for every coefficient vector in [-1,1]^n (LRA, DFT definition, %d grid values)"
                              % (L, kind, f.size), assumptions=box, goal=z3.And(goals), timeout=ctx.default_timeout * 2, extract=lambda mdl: {}))
    res = ctx.query_many(tasks)
    if any(r.verdict == "cex" for r in res):
        ctx.violation("src:roundtrip", "synthesis followed by analysis does not return the coefficients (source kernels)", {"L": [1, 2, 3]}, replay_source)


def part_pointwise(ctx, thorough):
    """evaluate_at_points(c, theta, phi) = sum_lm c_lm Y_lm(theta, phi) for every coefficient vector in the unit box
    (linear in c: LRA), at generic points; Y_lm from the source's own Legendre values and the Condon-Shortley phases"""
    import cmath
    ms = load_shimmed("chmpy.shape.sht")
    mc = pyx2py.load(PYX, "chmpy.shape._sht__pyp", dict(pyxrt.RUNTIME), package="chmpy.shape")
    LP = 5 if thorough else 3
    bad = None
    tasks = []
    mutated = []
    for L in range(1, LP + 1):
        sht = ms.SHT(L)
        sht.plm = mc.AssocLegendre(L)
        for (t0, p0) in ((0.83, 0.0), (0.83, 2.1), (2.4, -1.3)):
            P = np.zeros(sht.nplm())
            sht.plm.evaluate_batch(math.cos(t0), result=P)
            pidx = {}
            k = 0
            for m in range(L + 1):
                for l in range(m, L + 1):
                    pidx[(l, m)] = k
                    k += 1
            for kind in ("cplx", "real"):
                n = sht.nlm() if kind == "cplx" else sht.nplm()
                c = np.array([SymC(Sym(z3.Real("cr%d" % i)), Sym(z3.Real("ci%d" % i)) if (kind == "cplx" or i > L) else 0) for i in range(n)], dtype=object)
                ex = Explorer()
                c_before = list(c)
                pth = ex.run(lambda: sht.evaluate_at_points(c, t0, p0))
                ctx.add_paths(ex)
                if any(a is not b for a, b in zip(c_before, list(c))):
                    mutated.append("L=%d %s" % (L, kind))
                    c[:] = c_before
                if len(pth) != 1 or pth[0].exc is not None:
                    ctx.mark_inconclusive("pointwise L=%d %s" % (L, kind), "not executable symbolically: %r" % (pth[0].exc if pth else None))
                    continue
                got = SymC.lift(pth[0].value)
                ref = SymC(0, 0)
                for l in range(L + 1):
                    for m in range(0, l + 1):
                        pv = float(P[pidx[(l, m)]])
                        sgn = -1.0 if m % 2 else 1.0
                        if kind == "cplx":
                            cp, cn = c[l * (l + 1) + m], c[l * (l + 1) - m]
                        else:
                            cp = c[pidx[(l, m)]]
                            cn = cp.conjugate() * sgn
                        ref = ref + cp * (cmath.exp(1j * m * p0) * pv * sgn)
                        if m > 0:
                            ref = ref + cn * (cmath.exp(-1j * m * p0) * pv)
                box = []
                for v in c:
                    for comp in (v.re, v.im):
                        if isinstance(comp, Sym) and not z3.is_rational_value(comp.t):
                            box += [comp.t >= -1, comp.t <= 1]
                eps = z3.RealVal(Fraction(1, 10 ** 9))
                goals = []
                for a, b in ((got.re, ref.re),) + (((got.im, ref.im),) if kind == "cplx" else ()):
                    d = (Sym._lift(a) - b).t
                    goals.append(z3.And(d <= eps, d >= -eps))
                tasks.append(dict(name="pointwise L=%d %s at (theta,phi)=(%.2f,%.2f): evaluate_at_points(c) = sum c_lm Y_lm to 1e-9 for every coefficient vector in the unit box (LRA)"
                                  % (L, kind, t0, p0), assumptions=box, goal=z3.And(goals), timeout=ctx.default_timeout, extract=lambda mdl: {}))
    ctx.record("pointwise: evaluate_at_points leaves the (symbolic) coefficient array it is given untouched, L <= %d, both layouts" % LP,
               "holds" if not mutated else "counterexample", nontrivial=True)
    if mutated:
        ctx.violation("sht:pointwise", "evaluate_at_points modifies its coefficient argument in place (%s)" % mutated[0], {"L": [1, 2, 3]}, replay_sht)
    res = ctx.query_many(tasks)
    fails = [t["name"] for t, r in zip(tasks, res) if r.verdict == "cex"]
    if fails:
        ctx.violation("sht:pointwise", "point-wise evaluation differs from the harmonics: %s" % fails[0], {"L": [1, 2, 3]}, replay_sht)
