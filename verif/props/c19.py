"""C19  The Wulff construction is the intersection of the facet half-spaces.

The real WulffConstruction methods run on symbolic unit normals and energies with qhull
replaced by its contract (a simplex of the dual hull has every dual point and the origin on one
side of its plane): the vertex built from a dual simplex lies on its three facets and inside
every other half-space; scaling the energies scales the vertices; the polygon ordering is
a counter-clockwise convex order for symbolic points in convex position."""
import itertools
import time
from fractions import Fraction

import numpy as np
import z3

from .. import symx
from ..symx import Sym, SymBool, Explorer, load_shimmed, model_value


# ------------------------------------------------------------------------------------- replay
def replay_wulff(data):
    from chmpy.crystal.wulff import WulffConstruction
    from scipy.spatial import HalfspaceIntersection, ConvexHull
    rng = np.random.default_rng(int(data.get("seed", 0)))
    bad = []
    cases = []
    if "normals" in data:
        cases.append((np.array(data["normals"], float), np.array(data["energies"], float)))
    for n in (8, 14, 30):
        v = rng.normal(size=(n, 3))
        v /= np.linalg.norm(v, axis=1)[:, None]
        v = np.vstack([v, -v])
        e = rng.uniform(1.0, 2.0, size=len(v))
        cases.append((v, e))
    cube = np.vstack([np.eye(3), -np.eye(3)])
    cases.append((cube, np.ones(6)))
    cases.append((np.vstack([cube, np.array([[1, 1, 0], [-1, -1, 0], [1, -1, 0], [-1, 1, 0]]) / np.sqrt(2)]), np.r_[np.ones(6), 1.2 * np.ones(4)]))
    # shapes with vertices where four or more facets meet (the pruned-to-original index map matters there)
    octa = np.array(list(itertools.product((1, -1), repeat=3)), float) / np.sqrt(3)
    cases.append((octa, np.ones(8)))
    rd = np.array([v for v in itertools.product((1, 0, -1), repeat=3) if sum(abs(x) for x in v) == 2], float) / np.sqrt(2)
    cases.append((rd, np.ones(12)))
    cases.append((np.vstack([cube, octa]), np.r_[np.ones(6), (2 / np.sqrt(3)) * np.ones(8)]))
    cases.append((np.vstack([octa, np.array([[0, 0, 1.0], [0, 0, -1.0]])]), np.r_[np.ones(8), 1.1, 1.1]))
    # a cube whose corners are cut by tiny {111} facets: true edges of length 1.4e-3, far above the pruning threshold of 1e-5
    cases.append((np.vstack([cube, octa]), np.r_[np.ones(6), ((3 - 1e-3) / np.sqrt(3)) * np.ones(8)]))
    # facets that do not appear on the shape, given before / between the ones that do (their membership lists are empty but keep their place)
    unused = octa.copy()
    cases.append((np.vstack([unused, cube]), np.r_[2.0 * np.ones(8), np.ones(6)]))
    cases.append((np.vstack([cube[:3], unused, cube[3:]]), np.r_[np.ones(3), 2.0 * np.ones(8), np.ones(3)]))
    # the same shapes with the normals given as integer arrays / nested lists and non-integer energies (axis-aligned normals are
    # naturally written as integers, as in the library's own cube example)
    typed = []
    cuboid_e = np.array([1.0, 1.5, 2.5, 1.0, 1.5, 2.5])
    for tag, conv in (("integer array", lambda a: np.asarray(a).astype(int)), ("nested lists of ints", lambda a: np.asarray(a).astype(int).tolist()), ("int8 array", lambda a: np.asarray(a).astype(np.int8))):
        typed.append((tag, conv(cube), cube, cuboid_e))
        typed.append((tag, conv(cube), cube, 0.5 * cuboid_e))
    for normals, e in cases:
        typed.append((None, normals, normals, e))
    for tag, given, normals, e in typed:
        try:
            w = WulffConstruction(given, e if tag is None else (e.tolist() if "lists" in tag else e))
        except Exception as ex_:
            bad.append("WulffConstruction%s raises %s: %s" % ("" if tag is None else " (normals as %s)" % tag, type(ex_).__name__, ex_))
            continue
        if tag is not None and not np.allclose(np.asarray(w.facet_energies, float), e, rtol=0, atol=1e-12):
            bad.append("normals given as %s: the energies kept by the construction are not the energies given" % tag)
        V = np.asarray(w.wulff_vertices, float)
        slack = normals @ V.T - e[:, None]
        if slack.max() > 1e-8:
            bad.append("a vertex violates a facet inequality by %.3g" % slack.max())
        onf = (np.abs(slack) < 1e-8).sum(axis=0)
        if onf.min() < 3:
            bad.append("a vertex lies on fewer than three facets")
        wf = list(w.wulff_facets)
        if len(wf) != len(normals):
            bad.append("%d facet membership lists for %d facets given" % (len(wf), len(normals)))
        elif any(len(f) and np.abs(slack[k, list(f)]).max() > 1e-8 for k, f in enumerate(wf)):
            bad.append("a facet's membership list names a vertex that is not on that facet's plane (lists do not line up with the facets given)")
        hs = HalfspaceIntersection(np.c_[normals, -e], np.zeros(3))
        ref = hs.intersections
        uniq = np.unique(np.round(V, 6), axis=0)
        refu = np.unique(np.round(ref, 6), axis=0)
        if len(uniq) != len(refu) or not np.allclose(uniq, refu, rtol=0, atol=1e-5):
            bad.append("vertex set differs from an independent half-space intersection (%d vs %d vertices)" % (len(uniq), len(refu)))
        T = np.asarray(w.wulff_triangles)
        vol = np.einsum("ij,ij->i", V[T[:, 0]], np.cross(V[T[:, 1]], V[T[:, 2]])).sum() / 6
        if abs(vol - ConvexHull(ref).volume) > 1e-6 * max(1.0, vol):
            bad.append("mesh volume %.6g differs from the polyhedron's %.6g (faces not outward-consistent or not closed)" % (vol, ConvexHull(ref).volume))
        w2 = WulffConstruction(given, 2.5 * e)
        if not np.allclose(np.unique(np.round(np.asarray(w2.wulff_vertices, float), 6), axis=0), np.unique(np.round(2.5 * V, 6), axis=0), rtol=0, atol=1e-5):
            bad.append("scaling the energies by 2.5 does not scale the shape by 2.5")
    return bool(bad), bad[:4]


REPLAY = {"wulff": replay_wulff}


def _unit(tag):
    v = [Sym(z3.Real("%s%d" % (tag, k))) for k in range(3)]
    return np.array(v, dtype=object), (v[0] * v[0] + v[1] * v[1] + v[2] * v[2] == 1).t


class Angle2:
    """np.arctan2(y, x) as an exactly ordered key: order on (-pi, pi] by half-plane and cross product"""

    def __init__(self, y, x):
        self.y, self.x = Sym._lift(y), Sym._lift(x)

    def _upper(self):
        # angle in [0, pi]  (y > 0, or y == 0)
        return z3.Or(self.y.t > 0, self.y.t == 0)

    def __lt__(self, o):
        cross = (self.x * o.y - self.y * o.x).t
        su, ou = self._upper(), o._upper()
        same_dir = z3.And(cross == 0, (self.x * o.x + self.y * o.y).t > 0)
        lt = z3.Or(z3.And(z3.Not(su), ou, z3.Not(z3.And(self.y.t == 0, self.x.t > 0, False))),
                   z3.And(su == ou, cross > 0))
        # y == 0, x < 0 is angle pi (largest); y == 0, x > 0 is angle 0
        return SymBool(z3.And(z3.Not(same_dir), lt))

    def __gt__(self, o):
        return o.__lt__(self)


def run(ctx):
    from chmpy.crystal import wulff as real
    ctx.encode(real.WulffConstruction._populate_duals, real.WulffConstruction._extract_wulff_from_dual_mesh, real.WulffConstruction._fix_wulff_mesh,
               real.project_to_plane, real.winding_order_ccw, real.prune_degenerate_points, real.ordered_facets, real.order_and_triangulate_polygons)
    ctx.bound("vertex lemma: three facets of a dual simplex plus an arbitrary fourth facet, all unit normals and positive energies; ordering lemma: 4 (thorough: 5) points in convex position "
              "in a fixed plane, every input order")
    ctx.assume("reals for doubles")
    ctx.stub("ordering lemma: np.linalg.norm of a direction = 1 (positive scaling does not change arctan2); np.arctan2 = exactly ordered key (half-plane + cross product)")
    ctx.stub("scipy ConvexHull(points).simplices: any triangulation of the hull boundary -- for each simplex every dual point and the origin lie on one side of its plane, the origin strictly")
    ctx.out_of_scope("agreement of volume with an independent intersection (follows from vertex-set equality; only in the numeric replay oracle); qhull itself; coincident vertices beyond the pruning threshold")
    ctx.parallel_sections([("constructor", part_constructor), ("vertex", part_vertex), ("order", lambda c: part_order(c, ctx.tier == "thorough"))])


def part_constructor(ctx):
    """the constructor keeps the normals and the (symbolic) energies it is given, whatever array type the normals come in; the
    pipeline steps are no-ops here (they are the subject of the other sections)"""
    from chmpy.crystal import wulff as real
    ctx.encode(real.WulffConstruction.__init__)
    mw = load_shimmed("chmpy.crystal.wulff")
    C = mw.WulffConstruction
    E = [Sym(z3.Real("ce%d" % i)) for i in range(6)]
    cube = np.vstack([np.eye(3), -np.eye(3)]).astype(int)
    steps = ("_populate_duals", "_construct_dual_space_hull", "_extract_wulff_from_dual_mesh", "_fix_wulff_mesh")
    saved = {n: getattr(C, n) for n in steps}
    for n in steps:
        setattr(C, n, lambda self: None)
    why = None
    try:
        for tag, normals in (("integer array", cube), ("float array", cube.astype(float)), ("nested lists of ints", cube.tolist())):
            ex = Explorer(assumptions=[e.t > 0 for e in E])
            paths = ex.run(lambda: C(normals, list(E)))
            ctx.add_paths(ex)
            for p in paths:
                if p.exc is not None:
                    why = why or "normals as %s: the constructor raises %s: %s" % (tag, type(p.exc).__name__, p.exc)
                    continue
                w = p.value
                kept = np.asarray(w.facet_energies, dtype=object).ravel()
                okn = np.asarray(w.facet_normals, dtype=object).shape == (6, 3) and all(float(np.asarray(w.facet_normals, dtype=object)[i, k]) == cube[i, k] for i in range(6) for k in range(3))
                if len(kept) != 6 or not okn:
                    why = why or "normals as %s: normals / energies kept by the constructor have another shape or value" % tag
                    continue
                r = ctx.query("constructor (normals as %s): the energies kept are the energies given, for all positive energies" % tag, p.pc,
                              z3.And([(Sym._lift(kept[i]) == E[i]).t for i in range(6)]), ex=ex)
                if r.verdict == "cex":
                    why = why or "normals as %s: the energies kept by the constructor are not the energies given" % tag
    finally:
        for n, f in saved.items():
            setattr(C, n, f)
    # the symbolic arrays above carry no machine type: the same statement on the real class for the array types callers use
    # (integer normals with non-integer energies)
    gbad = None
    for tag, conv in (("integer array", lambda a: a.astype(int)), ("nested lists of ints", lambda a: a.astype(int).tolist()), ("int8 array", lambda a: a.astype(np.int8)), ("float32 array", lambda a: a.astype(np.float32))):
        for en in ([1.0, 1.5, 2.5, 1.0, 1.5, 2.5], [0.5, 0.75, 1.25, 0.5, 0.75, 1.25], np.array([1.0, 1.5, 2.5, 1.0, 1.5, 2.5])):
            try:
                wr = real.WulffConstruction(conv(cube.astype(float)), en)
                if not np.allclose(np.asarray(wr.facet_energies, float), np.asarray(en, float), rtol=0, atol=1e-12):
                    gbad = gbad or "normals as %s: the energies kept by the constructor are not the energies given" % tag
            except Exception as e_:
                gbad = gbad or "normals as %s: the constructor raises %s" % (tag, type(e_).__name__)
    ctx.record("constructor: energies kept = energies given for normals given as integer / int8 / float32 arrays and nested lists (ground instances, real class)",
               "holds" if gbad is None else "counterexample", nontrivial=True, method="ground instances")
    why = why or gbad
    if why:
        ctx.violation("wulff:constructor", why, {}, replay_wulff)


def part_vertex(ctx):
    mw = load_shimmed("chmpy.crystal.wulff")
    N, cons = [], []
    for i in range(4):
        n, c = _unit("n%d_" % i)
        N.append(n)
        cons.append(c)
    E = [Sym(z3.Real("e%d" % i)) for i in range(4)]
    s = Sym(z3.Real("s"))

    class Hull:
        simplices = np.array([[2, 1, 3]])     # facet 0 is the 'other' facet

    D = np.array([[Sym(z3.Real("d%d_%d" % (i, k))) for k in range(3)] for i in range(4)], dtype=object).view(symx.OArr)

    def duals():
        w = mw.WulffConstruction.__new__(mw.WulffConstruction)
        w.facet_normals = np.array(N, dtype=object).view(symx.OArr)
        w.facet_energies = np.array(E, dtype=object).view(symx.OArr)
        w._populate_duals()
        return w

    def build(scale=None):
        # step 2 of the decomposition: dual points are free symbols D_i, normals are e_i * D_i (what step 1 establishes)
        w = mw.WulffConstruction.__new__(mw.WulffConstruction)
        sc = scale if scale is not None else 1
        w.facet_energies = np.array([e * sc for e in E], dtype=object).view(symx.OArr)
        w.facet_normals = np.array([[E[i] * D[i, k] for k in range(3)] for i in range(4)], dtype=object).view(symx.OArr)
        w.facet_dual_vectors = np.array([[D[i, k] / sc for k in range(3)] for i in range(4)], dtype=object).view(symx.OArr)
        w.dual_hull = Hull()
        w._extract_wulff_from_dual_mesh()
        return w
    # the points handed to qhull are the dual points (the stub records its argument)
    seen = {}

    class HullRec:
        def __init__(self, pts, *a, **k):
            seen["pts"] = pts
            self.simplices = np.array([[2, 1, 3]])
    oldhull = mw.ConvexHull
    mw.ConvexHull = HullRec
    try:
        exh = Explorer(assumptions=cons + [e.t > 0 for e in E])

        def hull_input():
            w = duals()
            w._construct_dual_space_hull()
            return w
        ph = exh.run(hull_input)
    finally:
        mw.ConvexHull = oldhull
    ctx.add_paths(exh)
    okh = len(ph) == 1 and ph[0].exc is None and "pts" in seen
    if okh:
        pts = np.asarray(seen["pts"], dtype=object)
        wh = ph[0].value
        okh = pts.shape == (4, 3) and getattr(wh, "dual_hull", None) is not None
        if okh:
            rh = ctx.query("hull input: the point set handed to the convex-hull routine is n_i / e_i for every facet", ph[0].pc,
                           z3.And([(Sym._lift(pts[i][k]) * E[i] == N[i][k]).t for i in range(4) for k in range(3)]), ex=exh)
            okh = rh.verdict != "cex"
    if not okh:
        ctx.record("hull input: dual points n/e are handed to the convex-hull routine", "counterexample", nontrivial=True)
        ctx.violation("wulff:vertex", "the convex hull is not taken of the dual points n_i / e_i", {}, replay_wulff)
        return
    ex = Explorer(assumptions=cons + [e.t > 0 for e in E] + [s.t > 0])
    paths = ex.run(lambda: (duals(), build(), build(s)))
    ctx.add_paths(ex)
    if len(paths) != 1 or paths[0].exc is not None:
        ctx.harness_error("Wulff vertex extraction not executable symbolically: %r" % (paths[0].exc if paths else None))
        return
    w0, w, ws = paths[0].value
    x = w.wulff_vertices[0]
    d0 = w0.facet_dual_vectors
    a, b, c = D[2], D[1], D[3]
    nrm = np.cross(b - a, c - a)
    pc = paths[0].pc
    tasks = []
    # step 1: dual points are n/e
    tasks.append(dict(name="vertex: _populate_duals gives the dual point n/e for a unit normal (step 1)", assumptions=pc,
                      goal=z3.And([(d0[i][k] * E[i] == N[i][k]).t for i in range(4) for k in range(3)]), extract=lambda m: {}))
    pos = [e.t > 0 for e in E] + [s.t > 0]
    nd = (nrm[0] * a[0] + nrm[1] * a[1] + nrm[2] * a[2])
    nondeg = [(nd != 0).t]
    for i in (2, 1, 3):
        tasks.append(dict(name="vertex: the vertex of a dual simplex lies on the plane of its facet %d (n.x = e, with n = e d)" % i, assumptions=pos + nondeg,
                          goal=(sum(E[i] * D[i, k] * x[k] for k in range(3)) == E[i]).t, extract=lambda m: {}, timeout=ctx.default_timeout))
    side_p = sum(nrm[k] * (D[0, k] - a[k]) for k in range(3))
    side_o = sum(nrm[k] * (0 - a[k]) for k in range(3))
    contract = [z3.Or(z3.And(side_o.t < 0, side_p.t <= 0), z3.And(side_o.t > 0, side_p.t >= 0))]
    tasks.append(dict(name="vertex: the vertex satisfies the inequality of every other facet (n_p.x <= e_p) under the hull contract", assumptions=pos + contract,
                      goal=(sum(E[0] * D[0, k] * x[k] for k in range(3)) <= E[0]).t, extract=lambda m: {}, timeout=ctx.default_timeout * 2))
    ctx.note("scaling: the vertex lemmas hold for arbitrary dual points and energies, so the shape for energies s*e (dual points d/s) is the unique solution of "
             "n_i.x' = s e_i, i.e. x' = s x (instance of the universally quantified lemma + uniqueness of a non-degenerate 3x3 system; not a separate query)")
    # one membership list per facet given, in the order given -- also for a facet that does not appear on the shape (facet 0 here)
    wf = [list(f) for f in w.wulff_facets]
    okf = len(wf) == 4 and wf[1] == [0] and wf[2] == [0] and wf[3] == [0] and wf[0] == []
    ctx.record("vertex: membership lists -- the vertex is listed under exactly the three facets of its simplex", "holds" if okf else "counterexample", nontrivial=True)
    res = ctx.query_many(tasks)
    for t, r in zip(tasks, res):
        if r.verdict == "unknown":
            pass
    if any(r.verdict == "cex" for r in res) or not okf:
        ctx.violation("wulff:vertex", "vertex extracted from a dual simplex is not the intersection point of its facets inside the other half-spaces / does not scale", {}, replay_wulff)


def part_order(ctx, thorough):
    mw = load_shimmed("chmpy.crystal.wulff")
    mw.np.arctan2 = lambda y, x: Angle2(y, x)
    # dividing a direction by its (positive) length does not change arctan2: keep the square roots out of the comparisons
    real_norm = mw.np.linalg.norm
    mw.np.linalg.norm = lambda v, axis=None, **k: np.ones(np.asarray(v, dtype=object).shape[0]) if symx.has_sym(v) else real_norm(v, axis=axis, **k)
    # plane with rational orthonormal frame (e1, e2, n)
    e1 = np.array([Fraction(2, 3), Fraction(-1, 3), Fraction(2, 3)])
    e2 = np.array([Fraction(2, 3), Fraction(2, 3), Fraction(-1, 3)])
    nn = np.array([Fraction(-1, 3), Fraction(2, 3), Fraction(2, 3)])
    org = np.array([Fraction(1), Fraction(-2), Fraction(1, 2)])
    bad = None
    for npts in ((4, 5) if thorough else (4,)):
        perms = [p for p in itertools.permutations(range(npts)) if p[0] == 0] if not thorough or npts == 4 else [p for p in itertools.permutations(range(npts)) if p[0] == 0][::4]
        t0 = time.time()
        nchecked = 0
        for perm in perms:
            # the construction is invariant under similarity transforms of the plane: put the first input point at the plane origin
            # and the second at (1, 0); the remaining points are symbolic
            U = []
            for i in range(npts):
                if i == perm[0]:
                    U.append((Sym._lift(0), Sym._lift(0)))
                elif i == perm[1]:
                    U.append((Sym._lift(1), Sym._lift(0)))
                else:
                    U.append((Sym(z3.Real("u%d" % i)), Sym(z3.Real("v%d" % i))))
            Q = [np.array([Sym._lift(org[k]) + U[i][0] * e1[k] + U[i][1] * e2[k] for k in range(3)], dtype=object) for i in range(npts)]
            convex = []
            for k in range(npts):
                (ax, ay), (bx, by), (cx, cy) = U[k], U[(k + 1) % npts], U[(k + 2) % npts]
                convex.append((((bx - ax) * (cy - by) - (by - ay) * (cx - bx)) > Fraction(1, 100)).t)   # strictly convex, CCW about n
                # every other vertex lies to the left of the edge (left turns alone also admit star polygons from 5 points on)
                for j in range(npts):
                    if j not in (k, (k + 1) % npts, (k + 2) % npts):
                        (px, py) = U[j]
                        convex.append((((bx - ax) * (py - ay) - (by - ay) * (px - ax)) > 0).t)
            for i in range(npts):
                for j in range(i + 1, npts):
                    # corners are distinct by clearly more than the documented pruning threshold (1e-5): short edges are allowed
                    convex.append((((U[i][0] - U[j][0]) ** 2 + (U[i][1] - U[j][1]) ** 2) > Fraction(1, 10 ** 9)).t)
            pts = np.array([Q[i] for i in perm], dtype=object).view(symx.OArr)
            ex = Explorer(assumptions=convex, max_paths=4000, branch_timeout_ms=5000)
            paths = ex.run(lambda: mw.ordered_facets(pts, [list(range(npts))], [np.array([float(x) for x in nn])]))
            ctx.add_paths(ex)
            for p in paths:
                chk = ex.check(p.pc, timeout_ms=20000)[0]
                if chk == "unsat":
                    continue
                if chk != "sat":
                    ctx.mark_inconclusive("order: input order %s path %s" % (perm, p.decisions), "feasibility of the comparison pattern undecided")
                    continue
                nchecked += 1
                if p.exc is not None:
                    bad = (perm, "raises %r" % (p.exc,))
                    break
                order = [perm[i] for i in p.value[0]]      # labels in the CCW-convex numbering
                k0 = order.index(0)
                rot = order[k0:] + order[:k0]
                if rot != list(range(npts)):
                    bad = (perm, "ordered %s (labels of a counter-clockwise convex polygon)" % order)
                    break
            if bad:
                break
        ctx.record("order: %d points in convex position, %d input orders, %d feasible comparison paths: output is the counter-clockwise convex order about the facet normal" % (npts, len(perms), nchecked),
                   "holds" if bad is None else "counterexample", seconds=time.time() - t0, nontrivial=True)
        if bad:
            break
    # every facet with N >= 3 corners gives N - 2 triangles (triangle, quadrilateral, pentagon in one call)
    ptsm = np.array([[0, 0, 1.0], [1, 0, 1], [0, 1, 1], [0, 0, 2.0], [1, 0, 2], [1, 1, 2], [0, 1, 2], [2, 0, 3.0], [3, 0, 3], [3.5, 1, 3], [2.5, 2, 3], [1.5, 1, 3]])
    fcts = [[0, 1, 2], [3, 4, 5, 6], [7, 8, 9, 10, 11]]
    om, tm, fim = mw.order_and_triangulate_polygons(ptsm, fcts, [np.array([0, 0, 1.0])] * 3)
    okm = [len(o) for o in om] == [3, 4, 5] and len(tm) == 6 and list(fim) == [0, 1, 1, 2, 2, 2] and all(set(int(v) for v in t) <= set(fcts[f]) for t, f in zip(tm, fim))
    ctx.record("triangulation: a triangle, a quadrilateral and a pentagon give 1 + 2 + 3 triangles of their own corners (ground instance)", "holds" if okm else "counterexample", nontrivial=True, method="ground instance")
    if not okm:
        bad = bad or ("triangulation", "facets with 3, 4, 5 corners give %d triangles with facet indices %s" % (len(tm), list(fim)))
    # triangulation: fan from the first vertex, outward for a CCW polygon; degenerate pruning on a concrete duplicate
    pts = np.array([[0, 0, 1.0], [1, 0, 1], [1, 1, 1], [0, 1, 1], [1, 1, 1 + 1e-9]])
    ordered, tris, fi = mw.order_and_triangulate_polygons(pts, [[0, 1, 2, 3, 4]], [np.array([0, 0, 1.0])])
    okt = len(ordered[0]) == 4 and all(np.cross(pts[t[1]] - pts[t[0]], pts[t[2]] - pts[t[0]])[2] > 0 for t in tris) and len(tris) == 2 and fi == [0, 0]
    ctx.record("triangulation: fan triangles of a counter-clockwise polygon are outward; coincident points pruned (ground instance)", "holds" if okt else "counterexample", nontrivial=True, method="ground instance")
    if bad or not okt:
        ctx.violation("wulff:order", "facet polygon ordering/triangulation is not a counter-clockwise convex order: %s" % (bad,), {}, replay_wulff)
