"""Independent reference: IUPAC symbols and English names for Z = 1..103 (the oracle for C17;
British spellings 'aluminium', 'caesium', 'sulfur' as chmpy's table uses)."""
REF = (
    ("H", "hydrogen"), ("He", "helium"), ("Li", "lithium"), ("Be", "beryllium"), ("B", "boron"), ("C", "carbon"),
    ("N", "nitrogen"), ("O", "oxygen"), ("F", "fluorine"), ("Ne", "neon"), ("Na", "sodium"), ("Mg", "magnesium"),
    ("Al", "aluminium"), ("Si", "silicon"), ("P", "phosphorus"), ("S", "sulfur"), ("Cl", "chlorine"), ("Ar", "argon"),
    ("K", "potassium"), ("Ca", "calcium"), ("Sc", "scandium"), ("Ti", "titanium"), ("V", "vanadium"), ("Cr", "chromium"),
    ("Mn", "manganese"), ("Fe", "iron"), ("Co", "cobalt"), ("Ni", "nickel"), ("Cu", "copper"), ("Zn", "zinc"),
    ("Ga", "gallium"), ("Ge", "germanium"), ("As", "arsenic"), ("Se", "selenium"), ("Br", "bromine"), ("Kr", "krypton"),
    ("Rb", "rubidium"), ("Sr", "strontium"), ("Y", "yttrium"), ("Zr", "zirconium"), ("Nb", "niobium"), ("Mo", "molybdenum"),
    ("Tc", "technetium"), ("Ru", "ruthenium"), ("Rh", "rhodium"), ("Pd", "palladium"), ("Ag", "silver"), ("Cd", "cadmium"),
    ("In", "indium"), ("Sn", "tin"), ("Sb", "antimony"), ("Te", "tellurium"), ("I", "iodine"), ("Xe", "xenon"),
    ("Cs", "caesium"), ("Ba", "barium"), ("La", "lanthanum"), ("Ce", "cerium"), ("Pr", "praseodymium"), ("Nd", "neodymium"),
    ("Pm", "promethium"), ("Sm", "samarium"), ("Eu", "europium"), ("Gd", "gadolinium"), ("Tb", "terbium"), ("Dy", "dysprosium"),
    ("Ho", "holmium"), ("Er", "erbium"), ("Tm", "thulium"), ("Yb", "ytterbium"), ("Lu", "lutetium"), ("Hf", "hafnium"),
    ("Ta", "tantalum"), ("W", "tungsten"), ("Re", "rhenium"), ("Os", "osmium"), ("Ir", "iridium"), ("Pt", "platinum"),
    ("Au", "gold"), ("Hg", "mercury"), ("Tl", "thallium"), ("Pb", "lead"), ("Bi", "bismuth"), ("Po", "polonium"),
    ("At", "astatine"), ("Rn", "radon"), ("Fr", "francium"), ("Ra", "radium"), ("Ac", "actinium"), ("Th", "thorium"),
    ("Pa", "protactinium"), ("U", "uranium"), ("Np", "neptunium"), ("Pu", "plutonium"), ("Am", "americium"), ("Cm", "curium"),
    ("Bk", "berkelium"), ("Cf", "californium"), ("Es", "einsteinium"), ("Fm", "fermium"), ("Md", "mendelevium"),
    ("No", "nobelium"), ("Lr", "lawrencium"),
)
assert len(REF) == 103
SYMBOLS = tuple(s for s, _ in REF)
NAMES = tuple(n for _, n in REF)
