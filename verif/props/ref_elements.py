"""Independent reference: IUPAC symbols and English names for Z = 1..103 (the oracle for C17;
British spellings 'aluminium', 'caesium', 'sulfur' as chmpy's table uses)."""
REF = (
    ("H", "hydrogen"), ("He", "helium"), ("Li", "lithium"), ("Be", "beryllium"), ("B", "boron"), ("C", "carbon"),
    ("N", "nitrogen"), ("O", "oxygen"), ("F", "fluorine"), ("Ne", "neon"), ("Na", "sodium"), ("Mg", "magnesium"),
    ("Al", "aluminium"), ("Si", "silicon"), ("P", "phosphorus"), ("S", "sulfur"), ("Cl", "chlorine"), ("Ar", "argon"),
    ("K", "potassium"), ("Ca", "calcium"), ("Sc", "scandium"), ("Ti", "titanium"), ("V", "vanadium"), ("Cr", "chromium"),
    ("Mn", "manganese"), ("Fe", "iron"), ("Co", "cobalt"), ("Ni", "nickel"), ("Cu", "copper"), ("Zn", "zinc"),
    ("Ga", "gallium"), ("Ge", "germanium"), ("As", "arsenic"), ("Se", "selenium"), ("Br", "bromine"), ("Kr", "krypton"),
    ("Rb", "rubidium"), ("Sr", "strontium"), ("Y", "yttrium"), ("Zr", "zirconium"), ("Nb", "niobium"), ("Mo", "molybdenum"),
    ("Tc", "technetium"), ("Ru", "ruthenium"), ("Rh", "rhodium"), ("Pd", "palladium"), ("Ag", "silver"), ("Cd", "cadmium"),
    ("In", "indium"), ("Sn", "tin"), ("Sb", "antimony"), ("Te", "tellurium"), ("I", "iodine"), ("Xe", "xenon"),
    ("Cs", "caesium"), ("Ba", "barium"), ("La", "lanthanum"), ("Ce", "cerium"), ("Pr", "praseodymium"), ("Nd", "neodymium"),
    ("Pm", "promethium"), ("Sm", "samarium"), ("Eu", "europium"), ("Gd", "gadolinium"), ("Tb", "terbium"), ("Dy", "dysprosium"),
    ("Ho", "holmium"), ("Er", "erbium"), ("Tm", "thulium"), ("Yb", "ytterbium"), ("Lu", "lutetium"), ("Hf", "hafnium"),
    ("Ta", "tantalum"), ("W", "tungsten"), ("Re", "rhenium"), ("Os", "osmium"), ("Ir", "iridium"), ("Pt", "platinum"),
    ("Au", "gold"), ("Hg", "mercury"), ("Tl", "thallium"), ("Pb", "lead"), ("Bi", "bismuth"), ("Po", "polonium"),
    ("At", "astatine"), ("Rn", "radon"), ("Fr", "francium"), ("Ra", "radium"), ("Ac", "actinium"), ("Th", "thorium"),
    ("Pa", "protactinium"), ("U", "uranium"), ("Np", "neptunium"), ("Pu", "plutonium"), ("Am", "americium"), ("Cm", "curium"),
    ("Bk", "berkelium"), ("Cf", "californium"), ("Es", "einsteinium"), ("Fm", "fermium"), ("Md", "mendelevium"),
    ("No", "nobelium"), ("Lr", "lawrencium"),
)
assert len(REF) == 103
SYMBOLS = tuple(s for s, _ in REF)
NAMES = tuple(n for _, n in REF)


# standard atomic weights (IUPAC abridged values; mass number of the longest-lived isotope where no standard weight exists) -- the
# reference for "centre of mass": the library's own table must agree with these to MASS_RTOL
MASSES = (
    1.008, 4.0026, 6.94, 9.0122, 10.81, 12.011, 14.007, 15.999, 18.998, 20.180,
    22.990, 24.305, 26.982, 28.085, 30.974, 32.06, 35.45, 39.948, 39.098, 40.078,
    44.956, 47.867, 50.942, 51.996, 54.938, 55.845, 58.933, 58.693, 63.546, 65.38,
    69.723, 72.630, 74.922, 78.971, 79.904, 83.798, 85.468, 87.62, 88.906, 91.224,
    92.906, 95.95, 98.0, 101.07, 102.91, 106.42, 107.87, 112.41, 114.82, 118.71,
    121.76, 127.60, 126.90, 131.29, 132.91, 137.33, 138.91, 140.12, 140.91, 144.24,
    145.0, 150.36, 151.96, 157.25, 158.93, 162.50, 164.93, 167.26, 168.93, 173.05,
    174.97, 178.49, 180.95, 183.84, 186.21, 190.23, 192.22, 195.08, 196.97, 200.59,
    204.38, 207.2, 208.98, 209.0, 210.0, 222.0, 223.0, 226.0, 227.0, 232.04,
    231.04, 238.03, 237.0, 244.0, 243.0, 247.0, 247.0, 251.0, 252.0, 257.0,
    258.0, 259.0, 262.0)
MASS_RTOL = 0.005
