"""C01  Unit-cell contents are exactly the symmetry orbit of the asymmetric unit.

The real Crystal.unit_cell_atoms / SpaceGroup.apply_all_symops run on symbolic fractional
coordinates, symbolic occupancies and a symbolic cell, one tabulated setting per run.  The
KD-tree is a contract stub whose answers ('these two rows are within max_distance') are forked
symbolically, so every special-position pattern of the site is a path.  On each path the
solver decides: every image R x + t of every site (operations read off the real
SymmetryOperation objects by their action) is represented by exactly one kept row with the
right parent, coordinates in [0,1), element, label, generating operation (decoded from the
stored integer code) and Cartesian position, and the occupancy of a kept row is the sum over
the images merged into it."""
import itertools
import time
from fractions import Fraction

import numpy as np
import z3

from .. import symx
from ..symx import Sym, SymBool, Explorer, load_shimmed, model_value, OArr
from . import c02, c03

TOL = 1e-2
IDENTITY = 16484


# ------------------------------------------------------------------------------------ helpers
def _frac(v):
    return Fraction(v).limit_denominator(48) if not isinstance(v, Fraction) else v


def affine_exact(op):
    R, t = c02._affine(op)
    return [[int(v) for v in row] for row in R], [_frac(float(v)) for v in t]


_TABLE = None


def _table():
    global _TABLE
    if _TABLE is None:
        import json
        import os
        import chmpy.crystal.space_group as sgmod
        _TABLE = json.load(open(os.path.join(os.path.dirname(sgmod.__file__), "sgdata.json")))
    return _TABLE


def _table_codes(number, choice):
    rows = [r for r in _table()[str(number)] if str(r[6]) == str(choice)]
    if not rows:
        rows = _table()[str(number)][:1]
    return rows[0][8]


def _other_choices(number, choice):
    return [str(r[6]) for r in _table()[str(number)] if str(r[6]) != str(choice)]


def cell_for(number, choice):
    from chmpy.crystal.unit_cell import UnitCell
    if 143 <= number <= 194 and choice != "R":
        return UnitCell.hexagonal(9.0, 11.0)
    if choice == "R":
        return UnitCell.rhombohedral(9.0, np.radians(71.0))
    if number >= 195:
        return UnitCell.cubic(10.0)
    if number >= 75:
        return UnitCell.tetragonal(9.0, 11.0)
    if number >= 16:
        return UnitCell.orthorhombic(8.0, 9.0, 11.0)
    if number >= 3:
        ang = {"a": (np.radians(101.0), np.pi / 2, np.pi / 2), "b": (np.pi / 2, np.radians(101.0), np.pi / 2), "c": (np.pi / 2, np.pi / 2, np.radians(101.0))}
        return UnitCell.from_lengths_and_angles([8.0, 9.0, 11.0], ang.get((choice or "b")[0], ang["b"]))
    return UnitCell.from_lengths_and_angles([8.0, 9.0, 11.0], [np.radians(80.0), np.radians(101.0), np.radians(95.0)])


# ------------------------------------------------------------------------------------- replay
def orbit_reference(number, choice, sites, occ):
    """exact orbit classes: list of dict(k=site, frac=[Fraction]*3, occ=Fraction, ops=[codes])"""
    from chmpy.crystal.space_group import SpaceGroup
    from chmpy.crystal.symmetry_operation import SymmetryOperation
    classes = []
    for k, x in enumerate(sites):
        for op in [SymmetryOperation.from_integer_code(int(c)) for c in _table_codes(number, choice)]:
            R, t = affine_exact(op)
            u = [sum(R[i][j] * x[j] for j in range(3)) + t[i] for i in range(3)]
            w = tuple(v - (v.numerator // v.denominator) for v in u)
            for c in classes:
                if c["k"] == k and c["frac"] == w:
                    c["occ"] += occ[k]
                    c["ops"].append(int(op.integer_code))
                    break
            else:
                classes.append({"k": k, "frac": w, "occ": occ[k], "ops": [int(op.integer_code)]})
    return classes


def _replay_orbit_one(data):
    """real API on a concrete structure against the exact orbit (images must agree to 1e-9: doubles are good to 1e-15)"""
    from chmpy.crystal import Crystal, SpaceGroup, AsymmetricUnit
    from chmpy.crystal.symmetry_operation import SymmetryOperation
    from chmpy.core.element import Element
    number, choice = int(data["number"]), data.get("choice") or ""
    sites = [[Fraction(v) for v in row] for row in data["sites"]]
    occ = [Fraction(v) for v in data["occ"]]
    Z = [int(z) for z in data["Z"]]
    labels = list(data.get("labels") or ["X%d" % i for i in range(len(Z))])
    for other in _other_choices(number, choice)[:1]:
        SpaceGroup(number, other)       # a different setting of the same group first
    sg = SpaceGroup(number, choice) if choice else SpaceGroup(number)
    uc = cell_for(number, choice)
    au = AsymmetricUnit([Element[z] for z in Z], np.array([[float(v) for v in row] for row in sites]), labels=np.array(labels),
                        occupation=np.array([float(o) for o in occ]))
    c = Crystal(uc, sg, au)
    kw = {}
    if data.get("tolerance") is not None:
        kw["tolerance"] = float(data["tolerance"])
    res = c.unit_cell_atoms(**kw)
    ref = orbit_reference(number, choice, sites, occ)
    # the property's domain: distinct images are kept away from the merge tolerance (0.01, plain distance of the wrapped coordinates)
    W = np.array([[float(v) for v in cl["frac"]] for cl in ref])
    if len(W) > 1:
        dd = np.abs(W[:, None, :] - W[None, :, :]).max(axis=2) + 10 * np.eye(len(W))
        if dd.min() < 0.03:
            return False, ["structure outside the property's domain: two distinct images %.4f apart" % dd.min()]
    bad = []
    n = len(res["frac_pos"])
    for key in ("asym_atom", "element", "symop", "label", "occupation", "cart_pos"):
        if len(res[key]) != n:
            bad.append("array %s has %d rows, frac_pos has %d" % (key, len(res[key]), n))
    if bad:
        return True, bad
    fp = np.asarray(res["frac_pos"], float)
    if (fp < 0).any() or (fp >= 1).any():
        bad.append("fractional coordinate outside [0,1): %s" % fp[((fp < 0) | (fp >= 1)).any(axis=1)][0].tolist())
    hits = [0] * n
    for cl in ref:
        w = np.array([float(v) for v in cl["frac"]])
        d = np.abs(fp - w)
        d = np.minimum(d, 1 - d).max(axis=1)
        m = [i for i in range(n) if d[i] < 1e-9 and int(res["asym_atom"][i]) == cl["k"]]
        if len(m) != 1:
            bad.append("image %s of site %d appears %d times (expected once)" % ([str(v) for v in cl["frac"]], cl["k"], len(m)))
            continue
        i = m[0]
        hits[i] += 1
        if abs(float(res["occupation"][i]) - float(cl["occ"])) > 1e-9:
            bad.append("occupancy of the site at %s is %.6g, the merged images sum to %.6g" % ([str(v) for v in cl["frac"]], float(res["occupation"][i]), float(cl["occ"])))
        if int(res["element"][i]) != Z[cl["k"]] or str(res["label"][i]) != labels[cl["k"]]:
            bad.append("element/label of the image of site %d: %s/%s" % (cl["k"], res["element"][i], res["label"][i]))
        if int(res["symop"][i]) not in cl["ops"]:
            bad.append("generator code %d does not map site %d to %s" % (int(res["symop"][i]), cl["k"], [str(v) for v in cl["frac"]]))
        else:
            img = np.asarray(SymmetryOperation.from_integer_code(int(res["symop"][i])).apply(np.array([[float(v) for v in sites[cl["k"]]]])), float)[0]
            dd = np.abs(img - w) % 1
            if np.minimum(dd, 1 - dd).max() > 1e-9:
                bad.append("decoded generator %d applied to site %d gives %s, row is %s" % (int(res["symop"][i]), cl["k"], img.tolist(), w.tolist()))
    if any(h == 0 for h in hits):
        bad.append("%d row(s) of the unit cell are no image of their parent site" % sum(1 for h in hits if h == 0))
    tot = float(np.sum(res["occupation"]))
    want = float(sum(occ) * len(sg.symmetry_operations))
    if abs(tot - want) > 1e-9 * max(1, want):
        bad.append("total occupancy %.9g, asymmetric unit x operations = %.9g" % (tot, want))
    if not np.allclose(np.asarray(res["cart_pos"], float), fp @ np.asarray(uc.direct, float), rtol=0, atol=1e-9):
        bad.append("cart_pos is not frac_pos . direct")
    return bool(bad), bad[:4]


def replay_orbit(data):
    """the structure of the counterexample, then sites on the special positions built from halves, thirds, quarters and
    sixths (where images land exactly on cell faces and must still merge)"""
    r, det = _replay_orbit_one(data)
    if r or data.get("_single"):
        return r, det
    fr = ["0", "1/2", "1/3", "2/3", "1/4", "3/4", "1/6", "5/6"]
    rng = np.random.default_rng(5)
    tried = 0
    for _ in range(60):
        site = [fr[int(i)] for i in rng.integers(0, len(fr), 3)]
        if rng.random() < 0.5:
            site[int(rng.integers(0, 3))] = str(Fraction(int(rng.integers(1, 97)), 97))
        d2 = dict(data)
        d2.update(sites=[site], occ=["1/4"], Z=[int(data["Z"][0])], labels=[str((data.get("labels") or ["X0"])[0])], _single=True)
        try:
            r2, det2 = _replay_orbit_one(d2)
        except Exception as e:
            r2, det2 = True, ["site %s: %s: %s" % (site, type(e).__name__, e)]
        tried += 1
        if r2:
            return True, ["site %s: %s" % (site, det2[0])] + list(det2[1:2])
    return False, ["counterexample structure and %d special-position sites agree with the exact orbit" % tried]


REPLAY = {"orbit": replay_orbit}


# ------------------------------------------------------------------------------------ KD stub
class _Vacuous(Exception):
    pass


def make_kdtree(reg, mode):
    """contract stub of cKDTree for the calls unit_cell_atoms makes"""
    class KD:
        def __init__(self, pts, *a, **k):
            self.pts = np.asarray(pts, dtype=object)
            self.extra = (a, dict(k))
            self.max_distance = None
            self.pairs = 0
            reg.append(self)

        def sparse_distance_matrix(self, other, max_distance, *a, **k):
            ex = symx._EX
            self.max_distance = max_distance
            self.other = other
            P, Q = self.pts, other.pts
            n, m = len(P), len(Q)
            same = other is self
            md = Sym._lift(max_distance)
            within = {}
            for i in range(n):
                for j in range(m):
                    if same and i == j:
                        within[(i, j)] = True
                        continue
                    if same and j < i:
                        within[(i, j)] = within[(j, i)]
                        continue
                    self.pairs += 1
                    if mode == "general":
                        # assumption of the general-position runs: no two rows within max_distance (witnessed numerically by the caller)
                        within[(i, j)] = False
                        continue
                    d = [P[i][c] - Q[j][c] for c in range(3)]
                    eq = z3.And(*[(Sym._lift(x) == 0).t for x in d])
                    sep = z3.Or(*[z3.Or((Sym._lift(x) > md).t, (Sym._lift(x) < -md).t) for x in d])
                    ex.assume(z3.Or(eq, sep))                      # the property's precondition, on the rows the tree was given
                    near = z3.And(*[z3.And((Sym._lift(x) <= md).t, (Sym._lift(x) >= -md).t) for x in d])
                    within[(i, j)] = bool(SymBool(near))
            # scipy returns a dict-like DOK matrix iterated in row-major key order (checked against the installed scipy at start)
            return {(i, j): 0.0 for i in range(n) for j in range(m) if within[(i, j)]}
    return KD


def scipy_contract():
    """the iteration order the stub uses is the one the installed scipy produces"""
    from scipy.spatial import cKDTree
    rng = np.random.RandomState(3)
    base = rng.rand(25, 3)
    pts = np.vstack([base, base[:10], base[:5], base[:5] + 1e-3])
    rng.shuffle(pts)
    t = cKDTree(pts)
    d = t.sparse_distance_matrix(t, max_distance=1e-2)
    keys = [(int(i), int(j)) for (i, j), _ in d.items()]
    want = [(i, j) for i in range(len(pts)) for j in range(len(pts)) if np.linalg.norm(pts[i] - pts[j]) <= 1e-2]
    # the merge loop is correct for any order in which (i,j) precedes (j,k) for i<j<k
    pos = {k: n for n, k in enumerate(keys)}
    safe = all(pos[(i, j)] < pos[(j, k)] for (i, j) in keys if i < j for (jj, k) in keys if jj == j and j < k)
    return sorted(keys) == sorted(want), keys == want, safe


# --------------------------------------------------------------------------------- one setting
class Mods:
    def __init__(self):
        self.cm = load_shimmed("chmpy.crystal.crystal")
        self.ucm = load_shimmed("chmpy.crystal.unit_cell")
        self.ucm.UnitCell._set_cell_type = lambda self: None
        self.sgm = load_shimmed("chmpy.crystal.space_group")


def _inv3(M):
    (a, b, c), (d, e, f), (g, h, i) = M
    det = a * (e * i - f * h) - b * (d * i - f * g) + c * (d * h - e * g)
    adj = [[e * i - f * h, c * h - b * i, b * f - c * e], [f * g - d * i, a * i - c * g, c * d - a * f], [d * h - e * g, b * g - a * h, a * e - b * d]]
    return [adj[r][s] / det for r in range(3) for s in range(3)]


_INV_GENERIC = _inv3([[Fraction(73, 10), 0, 0], [Fraction(-21, 10), Fraction(89, 10), 0], [Fraction(13, 10), Fraction(-17, 10), Fraction(101, 10)]])


def _generic_point(ops, nsites, tol):
    """site coordinates whose images are pairwise separated by clearly more than the tolerance (searched numerically;
    only used as witness of the general-position assumption and to label rows)"""
    rng = np.random.RandomState(11)
    best, best_sep = None, -1.0
    for attempt in range(60):
        cand = [[Fraction(int(v), 10000) for v in rng.randint(300, 9700, 3)] for _ in range(nsites)]
        rows = []
        for x in cand:
            for (R, t) in ops:
                u = [sum(R[i][j] * x[j] for j in range(3)) + t[i] for i in range(3)]
                rows.append([float(v - (v.numerator // v.denominator)) for v in u])
        rows = np.array(rows)
        dd = np.abs(rows[:, None, :] - rows[None, :, :]).max(axis=2) + np.eye(len(rows))
        if dd.min() > best_sep:
            best, best_sep = cand, dd.min()
        if best_sep > 4 * tol:
            break
    return [v for x in best for v in x]


def _wrap_ref(u):
    return u - z3.ToReal(z3.ToInt(u))


def _val(mdl, t):
    return model_value(mdl, t)


def run_setting(ctx, mods, number, choice, nsites, mode, tolerance=None, max_paths=400):
    """Symbolic expansion of one setting.  Returns number of paths."""
    from chmpy.crystal.symmetry_operation import SymmetryOperation
    tag = "%d%s %s %d site%s" % (number, (":" + choice) if choice else "", mode, nsites, "s" if nsites > 1 else "")
    ex = Explorer(max_paths=max_paths, branch_timeout_ms=5000)
    uc, D, Iv, L = c03.symbolic_cell(mods, ex)
    X = np.array([[Sym(z3.Real("x%d_%d" % (k, c))) for c in range(3)] for k in range(nsites)], dtype=object).view(OArr)
    occ = np.array([Sym(z3.Real("occ%d" % k)) for k in range(nsites)], dtype=object).view(OArr)
    Z = [6, 8, 7][:nsites]
    # another setting of the same group is constructed first: what a setting is must not depend on what was built before
    for other in _other_choices(number, choice)[:1]:
        mods.sgm.SpaceGroup(number, other)
    sg = mods.sgm.SpaceGroup(number, choice) if choice else mods.sgm.SpaceGroup(number)
    # reference operations: the codes tabulated for exactly this (number, choice), decoded by the real decoder
    from chmpy.crystal.symmetry_operation import SymmetryOperation as _SO
    ops = [affine_exact(_SO.from_integer_code(int(c))) for c in _table_codes(number, choice)]
    ex.base = [z3.And(x.t >= -3, x.t <= 3) for x in X.flat] + [z3.And(o.t > 0, o.t <= 1) for o in occ]
    reg = []
    mods.cm.KDTree = make_kdtree(reg, mode)
    # reference images (all operations, all sites), wrapped mathematically
    ref = []
    for k in range(nsites):
        for (R, t) in ops:
            u = [z3.simplify(sum(z3.RealVal(R[i][j]) * X[k, j].t for j in range(3)) + z3.RealVal(t[i])) for i in range(3)]
            ref.append((k, [_wrap_ref(v) for v in u]))
    tol_val = TOL if tolerance is None else tolerance
    if mode == "full" and nsites > 1:
        # different sites never share a position (no two-component disorder): part of the stated domain
        tv = z3.RealVal(symx._nice_fraction(float(tol_val)))
        for (ka, wa), (kb, wb) in itertools.combinations(ref, 2):
            if ka != kb:
                ex.base.append(z3.Or(*[z3.Or(wa[c] - wb[c] > tv, wb[c] - wa[c] > tv) for c in range(3)]))
    generic = [z3.RealVal(v) for v in _generic_point(ops, nsites, float(tol_val))]

    def go():
        del reg[:]
        cr = c03.make_crystal(mods, uc)
        cr.space_group = sg
        au = c03.FakeAsym(X, Z)
        au.properties = {"occupation": occ.copy()}
        cr.asymmetric_unit = au
        res = cr.unit_cell_atoms() if tolerance is None else cr.unit_cell_atoms(tolerance=tolerance)
        return res, reg[-1] if reg else None

    paths = ex.run(go)
    ctx.add_paths(ex)
    labels = ["X%d" % k for k in range(nsites)]
    for pn, p in enumerate(paths):
        name = "%s path %d" % (tag, pn)
        data0 = {"number": number, "choice": choice, "Z": Z, "labels": labels, "tolerance": tolerance}

        def cex_data(mdl):
            d = dict(data0)
            d["sites"] = [[str(_val(mdl, X[k, c].t)) for c in range(3)] for k in range(nsites)]
            d["occ"] = [str(_val(mdl, occ[k].t)) for k in range(nsites)]
            return d

        # witnesses get a generic cell so that a wrong Cartesian row shows at the witness already
        cell_eqs = [D[i, j].t == z3.RealVal(Fraction(v)) for (i, j), v in zip(itertools.product(range(3), range(3)), ("73/10", "0", "0", "-21/10", "89/10", "0", "13/10", "-17/10", "101/10"))]
        cell_eqs += [Iv[i, j].t == z3.RealVal(Fraction(v)) for (i, j), v in zip(itertools.product(range(3), range(3)), _INV_GENERIC)]
        if mode == "general":
            gen_eqs = [X[k, c].t == generic[3 * k + c] for k in range(nsites) for c in range(3)]
            r, mdl = ctx.witness(name + ": a generic point", p.pc + cell_eqs + gen_eqs + [o.t == z3.RealVal(Fraction(1, 2 + k)) for k, o in enumerate(occ)], ex=ex, timeout=30)
        else:
            r, mdl = ctx.witness(name + ": path condition satisfiable", p.pc + cell_eqs, ex=ex, timeout=30, expect=None)
        if r == "unsat":
            continue
        if p.exc is not None:
            if mdl is None:
                ctx.mark_inconclusive(name, "unit_cell_atoms raised %r and no model of the path" % (p.exc,))
            else:
                ctx.violation("orbit:%d:%s" % (number, choice), "%s: unit_cell_atoms raises %s: %s" % (tag, type(p.exc).__name__, p.exc), cex_data(mdl), replay_orbit)
                return len(paths)       # one report per setting
            continue
        res, kd = p.value
        goals = []
        if kd is None:
            goals.append(("no KD-tree was built", z3.BoolVal(False)))
        else:
            if kd.extra != ((), {}):
                ctx.note("%s: KDTree constructed with extra arguments %r (outside the stub's contract)" % (tag, kd.extra))
            if kd.max_distance is None or not isinstance(kd.max_distance, (int, float)) or float(kd.max_distance) != float(tol_val):
                goals.append(("the merge radius handed to the KD-tree is the tolerance argument", z3.BoolVal(False)))
            if kd.other is not kd:
                goals.append(("the distance matrix is taken of the tree with itself", z3.BoolVal(False)))
        fp, M = res["frac_pos"], len(res["frac_pos"])
        for key in ("asym_atom", "element", "symop", "label", "occupation", "cart_pos"):
            if len(res[key]) != M:
                goals.append(("array %s has one entry per kept row" % key, z3.BoolVal(False)))
        if goals:
            gen = ex.check(p.pc, timeout_ms=20000)
            if gen[0] == "sat":
                ctx.record(name + ": structural", "counterexample")
                ctx.violation("orbit:%d:%s" % (number, choice), "%s: %s fails" % (tag, goals[0][0]), cex_data(gen[1].model()), replay_orbit)
                return len(paths)       # one report per setting
            else:
                ctx.mark_inconclusive(name, "structural failure (%s) without model" % goals[0][0])
            continue
        # assign every reference image to a kept row using one model of the path
        if mdl is None:
            # the witness query above did not finish (busy machine): ask once more for a model of this very path condition; a
            # model of anything weaker would assign the images wrongly
            rr, sol = ex.check(list(p.pc), timeout_ms=180000)
            mdl = sol.model() if rr == "sat" else None
            if rr == "unsat":
                continue
        if mdl is None:
            ctx.mark_inconclusive(name, "no model of the path condition within the time limit")
            continue
        fpt = [[Sym._lift(fp[m][c]).real() for c in range(3)] for m in range(M)]
        fpv = [[_val(mdl, fpt[m][c]) for c in range(3)] for m in range(M)]
        asym = [int(a) for a in res["asym_atom"]]
        owner = {}
        members = {m: [] for m in range(M)}
        failed = None
        for ri, (k, w) in enumerate(ref):
            wv = [_val(mdl, t) for t in w]
            cand = [m for m in range(M) if asym[m] == k and fpv[m] == wv]
            if len(cand) != 1:
                failed = "the image %s of site %d is represented by %d kept rows (expected exactly one)" % ([str(v) for v in wv], k, len(cand))
                break
            owner[ri] = cand[0]
            members[cand[0]].append(ri)
            goals.append(("image %d of site %d is row %d" % (ri, k, cand[0]), z3.And(*[fpt[cand[0]][c] == w[c] for c in range(3)])))
        if failed is None and any(not v for v in members.values()):
            failed = "a kept row is no image of its parent site"
        if failed:
            ctx.record(name + ": assignment", "counterexample")
            ctx.violation("orbit:%d:%s" % (number, choice), "%s: %s" % (tag, failed), cex_data(mdl), replay_orbit)
            return len(paths)       # one report per setting
        occ_out = res["occupation"]
        cart = res["cart_pos"]
        cgoals = []
        for m in range(M):
            k = asym[m]
            for c in range(3):
                goals.append(("row %d coordinate %d in [0,1)" % (m, c), z3.And(fpt[m][c] >= 0, fpt[m][c] < 1)))
                cgoals.append(("row %d Cartesian %d = frac . direct" % (m, c), Sym._lift(cart[m][c]).real() == sum(fpt[m][q] * D[q, c].t for q in range(3))))
            goals.append(("row %d element/label" % m, z3.BoolVal(int(res["element"][m]) == Z[k] and str(res["label"][m]) == labels[k])))
            try:
                Rg, tg = affine_exact(SymmetryOperation.from_integer_code(int(res["symop"][m])))
                ug = [sum(z3.RealVal(Rg[i][j]) * X[k, j].t for j in range(3)) + z3.RealVal(tg[i]) for i in range(3)]
                goals.append(("row %d is the image of its parent under the decoded generator %d" % (m, int(res["symop"][m])),
                              z3.And(*[fpt[m][c] == _wrap_ref(ug[c]) for c in range(3)])))
            except Exception as e:
                goals.append(("row %d generator code %r decodes (%s)" % (m, res["symop"][m], e), z3.BoolVal(False)))
            goals.append(("row %d occupancy = sum over the %d merged image(s)" % (m, len(members[m])),
                          Sym._lift(occ_out[m]).real() == sum(occ[ref[ri][0]].t for ri in members[m])))
        pcq = p.pc
        if mode == "general":
            # the stub answered 'no two rows within max_distance': witnessed at the generic point
            rows = np.array([[float(_val(mdl, Sym._lift(v).real())) for v in row] for row in kd.pts])
            dd = np.abs(rows[:, None, :] - rows[None, :, :]).max(axis=2) + np.eye(len(rows))
            ctx.fidelity_check("%s: general-position assumption satisfiable (generic point, all %d rows pairwise separated)" % (tag, len(rows)), bool(dd.min() > float(tol_val)))
        # cheap refutation first: a goal that is false at the witness of the path condition is a counterexample already
        early = [lab for lab, g in goals + cgoals if z3.is_false(mdl.eval(g, model_completion=True))]
        if early:
            ctx.record(name + ": goals evaluated at the witness of the path condition", "counterexample")
            ctx.violation("orbit:%d:%s" % (number, choice), "%s: %s" % (tag, early[0]), cex_data(mdl), replay_orbit)
            return len(paths)       # one report per setting
        qname = name + ": %d images <-> %d kept rows, ranges, metadata, generator, occupancy" % (len(ref), M)
        rr = ctx.query(qname, pcq, z3.And(*[g for _, g in goals]),
                       ex=ex, timeout=30 if ctx.tier == "quick" else 120, vacuity=False)
        if rr.verdict == "unknown" and len(goals) > 4:
            # the conjunction timed out: decide it in pieces (the timed-out attempt stays in the record, superseded)
            ctx.inconclusive[:] = [q for q in ctx.inconclusive if q.get("query") != qname]
            step = max(1, len(goals) // 12)
            verdicts = []
            for a in range(0, len(goals), step):
                part = goals[a:a + step]
                r2 = ctx.query("%s [goals %d-%d of %d]" % (qname, a, a + len(part) - 1, len(goals)), pcq, z3.And(*[g for _, g in part]), ex=ex,
                               timeout=30 if ctx.tier == "quick" else 120, vacuity=False)
                verdicts.append(r2)
                if r2.verdict == "cex":
                    break
            rr = next((v for v in verdicts if v.verdict == "cex"), None) or next((v for v in verdicts if v.verdict == "unknown"), None) or verdicts[-1]
        # Cartesian rows: bilinear in (fractional row, cell).  Decided with the fractional coordinates generalised to
        # fresh reals (a stronger statement without the integer part of the wrap); exact terms only if that fails
        if rr.verdict == "holds" and cgoals:
            subs, seen = [], {}
            for m in range(M):
                for q in range(3):
                    if fpt[m][q].get_id() not in seen and not z3.is_rational_value(fpt[m][q]):
                        seen[fpt[m][q].get_id()] = True
                        subs.append((fpt[m][q], z3.Real("F_%d_%d" % (m, q))))
            gen = z3.substitute(z3.And(*[g for _, g in cgoals]), *subs)
            rc = ctx.query(name + ": cart_pos = frac_pos . direct for %d rows (fractional rows generalised)" % M, [], gen, ex=None, timeout=30, vacuity=False)
            if rc.verdict != "holds":
                rr = ctx.query(name + ": cart_pos = frac_pos . direct (exact terms)", pcq, z3.And(*[g for _, g in cgoals]), ex=ex, timeout=60, vacuity=False)
                goals = cgoals
        if rr.verdict == "cex":
            bad = [lab for lab, g in goals if z3.is_false(rr.model.eval(g, model_completion=True))]
            ctx.violation("orbit:%d:%s" % (number, choice), "%s: %s" % (tag, bad[0] if bad else "conjunction fails"), cex_data(rr.model), replay_orbit)
            return len(paths)       # one report per setting
    return len(paths)


# ----------------------------------------------------------------------------------------- run
def _chunks(lst, n):
    out = [[] for _ in range(n)]
    for i, x in enumerate(lst):
        out[i % n].append(x)
    return [c for c in out if c]


def plan(tier):
    from chmpy.crystal.space_group import SpaceGroup
    allset = c02.settings()
    order = {}
    for (n, ch) in allset:
        order[(n, ch)] = len((SpaceGroup(n, ch) if ch else SpaceGroup(n)).symmetry_operations)
    jobs = []
    if tier == "quick":
        small = [s for s in allset if order[s] <= 4]
        eight = [s for s in allset if order[s] in (6, 8)]
        full1 = small + eight[::5]
        full2 = [s for s in allset if order[s] == 2][::3]
        general = allset[::4]
    else:
        full1 = [s for s in allset if order[s] <= 8] + [s for s in allset if order[s] in (9, 12, 16)][::6]
        full2 = [s for s in allset if order[s] <= 3] + [s for s in allset if order[s] == 4][::6]
        general = allset
    for s in full1:
        jobs.append((s[0], s[1], 1, "full", order[s] ** 2))
    for s in full2:
        jobs.append((s[0], s[1], 2, "full", (2 * order[s]) ** 2 * 4))
    for s in general:
        jobs.append((s[0], s[1], 2, "general", 2 * order[s]))
    return jobs


def run(ctx):
    from chmpy.crystal.crystal import Crystal
    from chmpy.crystal.space_group import SpaceGroup
    from chmpy.crystal.symmetry_operation import SymmetryOperation
    from chmpy.crystal.unit_cell import UnitCell
    ctx.encode(Crystal.unit_cell_atoms, SpaceGroup.apply_all_symops, SpaceGroup.__init__, SymmetryOperation.apply, SymmetryOperation.from_integer_code,
               Crystal.to_cartesian, UnitCell.to_cartesian)
    ctx.bound("site coordinates symbolic in [-3,3] (images stay above the -7 the wrap adds), occupancies symbolic in (0,1], cell symbolic (all invertible matrices); "
              "'full' runs: 1 site (2 sites for the smallest groups), every coincidence pattern of its images explored by forking on the KD-tree answers; "
              "'general' runs: 2 sites on general positions.  quick: a stratified subset of the 530 settings; thorough: all 530 settings (general) and every setting with <= 8 operations (full)")
    ctx.assume("reals for doubles; every two rows handed to the KD-tree either coincide exactly or differ by more than the tolerance in some coordinate (the property's 'kept away from the merge tolerance')")
    ctx.stub("cKDTree(points).sparse_distance_matrix(self, max_distance): dict-like with a key (i,j) for every ordered pair within max_distance, including i == j, iterated in row-major order")
    ctx.out_of_scope("floating-point rounding in fmod(x + 7.0, 1) and in the images of special positions; sites with an image coordinate <= -7; Crystal.slab (layout decided in C03)")
    ok_set, ok_order, ok_safe = scipy_contract()
    ctx.fidelity_check("installed scipy: sparse_distance_matrix(...).items() yields exactly the pairs within max_distance", ok_set)
    ctx.fidelity_check("installed scipy: key order is one in which the merge loop is order-safe ((i,j) before (j,k) for i<j<k)", ok_safe,
                       "row-major order: %s" % ok_order)
    ctx.max_reports = 3
    jobs = plan(ctx.tier)
    jobs.sort(key=lambda j: -j[4])
    nproc = 16
    buckets = [[] for _ in range(nproc * 3)]
    load = [0] * len(buckets)
    for j in jobs:
        b = load.index(min(load))
        buckets[b].append(j)
        load[b] += j[4]

    def make(bucket):
        def section(sub):
            mods = Mods()
            for (n, ch, nsites, mode, _) in bucket:
                t0 = time.time()
                try:
                    run_setting(sub, mods, n, ch, nsites, mode)
                except symx.PathLimit as e:
                    sub.mark_inconclusive("%d%s %s" % (n, ch, mode), "path limit: %s" % e)
        return section
    ctx.parallel_sections([("bucket %d" % i, make(b)) for i, b in enumerate(buckets) if b], nproc=nproc)
    ctx.note("settings explored: %d full/1 site, %d full/2 sites, %d general/2 sites" % (
        sum(1 for j in jobs if j[3] == "full" and j[2] == 1), sum(1 for j in jobs if j[3] == "full" and j[2] == 2), sum(1 for j in jobs if j[3] == "general")))
