"""C09  Shape descriptors of a molecule do not depend on its pose or atom ordering.

Compositional (DESIGN C09): pose independence of Inv(SHT(r)) follows from C05 (density depends
on distances only), C07/C08 (rotated band-limited function => same invariants) and the glue
decided here by symbolic execution of the real descriptor functions with the radial root
finder, the transform and the invariants as recording stubs:
 origin = mean position; the root finder gets that origin, the grid directions and the given
 bounds/isovalue; property samples are exactly origin + r_i * direction_i; negative radius =>
 ValueError; bounds of the molecule/crystal entry points depend on distances to the origin and
 on the *element* of the atom only."""
import time

import numpy as np
import z3

from .. import symx
from ..symx import Sym, Explorer, load_shimmed, model_value
from ..symc import SymC


class FakeSHT:
    """2x2 angular grid with concrete unit directions; analysis/lmax recorded"""

    def __init__(self):
        self.lmax = 2
        th = np.array([[0.6, 0.6], [2.1, 2.1]])
        ph = np.array([[0.4, 3.0], [0.4, 3.0]])
        self.grid = (th, ph)
        self.grid_cartesian = (np.sin(th) * np.cos(ph), np.sin(th) * np.sin(ph), np.cos(th))
        self.analysed = []

    def analysis(self, r):
        self.analysed.append(r)
        return np.array(["coeffs"], dtype=object)


def _pos(n, tag="p"):
    return np.array([[Sym(z3.Real("%s%d_%d" % (tag, i, k))) for k in range(3)] for i in range(n)], dtype=object).view(symx.OArr)


# ------------------------------------------------------------------------------------ replay
def _rot(seed):
    rng = np.random.default_rng(seed)
    Q = np.linalg.qr(rng.normal(size=(3, 3)))[0]
    return Q * np.sign(np.linalg.det(Q))


def replay_pose(data):
    try:
        return _replay_pose(data)
    except Exception as e:   # the real API fails on a valid input
        return True, ["%s scenario raises %s: %s" % (data.get("which"), type(e).__name__, e)]


def _replay_pose(data):
    """descriptor of the same object in two poses / atom orders (real API, numeric; tolerance = discretisation error at l_max)"""
    from chmpy.core.molecule import Molecule
    from chmpy.shape import SHT, promolecule_density_descriptor, stockholder_weight_descriptor
    Z = np.array(data.get("Z", [8, 1, 1, 6]))
    P = np.array(data.get("pos", [[0.0, 0.0, 0.12], [0.0, 0.76, -0.48], [0.0, -0.76, -0.48], [1.9, 0.3, 0.4]]), float)
    t = np.array(data.get("t", [4.0, -3.0, 2.5]))
    Q = _rot(3)
    sht = SHT(int(data.get("lmax", 6)))
    bad = []
    tol = float(data.get("tol", 2e-2))

    def close(a, b):
        return a.shape == b.shape and np.allclose(a, b, rtol=0, atol=tol * max(1.0, np.abs(a).max()))
    which = data.get("which", "promolecule")
    prop = data.get("with_property", None)
    if which == "promolecule":
        f = lambda z, p: promolecule_density_descriptor(sht, z, p, with_property=prop)
        a = f(Z, P)
        if not close(a, f(Z, P + t)):
            bad.append("promolecule descriptor (with_property=%s) changes under a translation by %s" % (prop, t.tolist()))
        if not close(a, f(Z, P @ Q)):
            bad.append("promolecule descriptor (with_property=%s) changes under a rotation" % prop)
        perm = np.array([2, 0, 3, 1])
        if not close(a, f(Z[perm], P[perm])):
            bad.append("promolecule descriptor changes under atom reordering")
    elif which == "stockholder":
        f = lambda p: stockholder_weight_descriptor(sht, Z[:3], p[:3], Z[3:], p[3:], with_property=prop, background=1e-5)
        a = f(P)
        if not close(a, f(P + t)):
            bad.append("stockholder descriptor (with_property=%s) changes under a translation" % prop)
        if not close(a, f(P @ Q)):
            bad.append("stockholder descriptor changes under a rotation")
    elif which == "atomic":
        for ZZ, PP in ((Z, P), (np.array([1, 35]), np.array([[0.0, 0.0, 0.0], [9.0, 0.0, 0.0]]))):
            m1 = Molecule.from_arrays(ZZ, PP)
            perm = np.arange(len(ZZ))[::-1]
            m2 = Molecule.from_arrays(ZZ[perm], PP[perm] + t)
            d1, d2 = m1.atomic_shape_descriptors(l_max=4), m2.atomic_shape_descriptors(l_max=4)
            if not close(d1[perm], d2):
                bad.append("atomic shape descriptors depend on atom order / translation (Z=%s)" % ZZ.tolist())
    elif which == "moved":
        axis = np.array([1.0, 2.0, 3.0]) / np.sqrt(14.0)
        K = np.array([[0, -axis[2], axis[1]], [axis[2], 0, -axis[0]], [-axis[1], axis[0], 0]])
        R = np.eye(3) + np.sin(1.1) * K + (1 - np.cos(1.1)) * K @ K
        P0 = P + np.array([3.0, 2.0, 1.5])          # not centred at the origin, so a rotation about the origin moves the centroid
        for kw in ({}, {"with_property": "d_norm"}):
            for tag, move in (("rotate(R)", lambda m: m.rotate(R)), ("transform(rotation=R, translation=t)", lambda m: m.transform(rotation=R, translation=t)),
                              ("translate(t)", lambda m: m.translate(t)), ("rotated(R) copy", lambda m: m.rotated(R)), ("positions reassigned", lambda m: setattr(m, "positions", m.positions @ R.T + 1.0))):
                mol = Molecule.from_arrays(Z, P0.copy())
                mol.shape_descriptors(l_max=4, **kw)
                mol.centroid, mol.center_of_mass
                out = move(mol)
                mol = out if isinstance(out, Molecule) else mol

                def d_(m):
                    try:
                        return np.asarray(m.shape_descriptors(l_max=4, **kw), float)
                    except ValueError as e:
                        return "ValueError"
                a, b = d_(mol), d_(Molecule.from_arrays(Z, np.array(mol.positions, float).copy()))
                if isinstance(a, str) != isinstance(b, str) or (not isinstance(a, str) and (a.shape != b.shape or not np.allclose(a, b, rtol=0, atol=1e-6))):
                    bad.append("shape_descriptors(%s) of a molecule described before and then moved by %s differs from that of a fresh molecule at the same coordinates" % (kw, tag))
    elif which == "crystal":
        # the same crystal described with its origin moved along the polar axis (Pna2_1: z is free)
        from chmpy.crystal import Crystal, AsymmetricUnit
        c1 = Crystal.load("/repo/src/chmpy/tests/test_files/acetic_acid.cif")
        d1 = c1.molecular_shape_descriptors(l_max=4, with_property=prop)
        asym = c1.asymmetric_unit
        pos2 = np.array(asym.positions) + np.array([5.0, 5.0, 5.37])   # lattice translation + shift along the free axis
        c2 = Crystal(c1.unit_cell, c1.space_group, AsymmetricUnit(list(asym.elements), pos2, labels=np.array(asym.labels)))
        d2 = c2.molecular_shape_descriptors(l_max=4, with_property=prop)
        if not close(d1, d2):
            bad.append("Crystal.molecular_shape_descriptors changes when the crystal's origin is moved along the polar axis")
        # a larger, flat molecule (benzene, 12 atoms) in a P1 cell, described in the axis settings (a,b,c) and (b,c,a):
        # the same structure rigidly re-oriented, so the surface must be found in both
        from chmpy.crystal import UnitCell, SpaceGroup
        from chmpy.core.element import Element
        ang = np.arange(6) * np.pi / 3
        ring = np.c_[np.cos(ang), np.sin(ang), np.zeros(6)]
        cart = np.vstack([1.39 * ring, 2.48 * ring]) + np.array([3.7, 3.95, 2.6])
        els = [Element[6]] * 6 + [Element[1]] * 6
        res = []
        for perm_ in ((0, 1, 2), (1, 2, 0)):
            lengths = np.array([7.4, 7.9, 5.2])[list(perm_)]      # close-packed: every direction meets a neighbouring image
            uc = UnitCell.from_lengths_and_angles(list(lengths), [np.pi / 2] * 3)
            frac = (cart[:, list(perm_)]) / lengths
            cb = Crystal(uc, SpaceGroup(1), AsymmetricUnit(els, frac))
            try:
                res.append(np.asarray(cb.molecular_shape_descriptors(l_max=4, with_property=prop), float))
            except Exception as e:
                bad.append("Crystal.molecular_shape_descriptors of a benzene P1 crystal in axis setting %s raises %s: %s" % (perm_, type(e).__name__, e))
        # a 20-atom molecule (paracetamol, shipped test structure): the surface exists inside the documented bounds
        try:
            cp = Crystal.load("/repo/src/chmpy/tests/test_files/HXACAN01.pdb")
            dp = np.asarray(cp.molecular_shape_descriptors(l_max=4, with_property=prop), float)
            if not np.all(np.isfinite(dp)):
                bad.append("Crystal.molecular_shape_descriptors of paracetamol is not finite")
        except Exception as e:
            bad.append("Crystal.molecular_shape_descriptors of paracetamol (HXACAN01) raises %s: %s" % (type(e).__name__, e))
        # (the two descriptor vectors are not compared: at l_max = 4 rotation invariance only holds up to the discretisation
        # error of the transform, which is outside the claim; what must not depend on the setting is that the surface is found)
    elif which == "error":
        # surface reachable in some directions only: Cl2 6 A long, search limited to 3.5 A -> must be reported as an error
        Zc, Pc = np.array([17, 17]), np.array([[-3.0, 0.0, 0.0], [3.0, 0.0, 0.0]])
        for fn, args in ((promolecule_density_descriptor, (sht, Zc, Pc)), (stockholder_weight_descriptor, (sht, Zc, Pc, np.array([1]), np.array([[0.0, 9.0, 0.0]])))):
            for b in ((0.4, 0.6), (0.4, 3.5)):
                try:
                    fn(*args, bounds=b, **({"background": 1e-5} if fn is stockholder_weight_descriptor else {}))
                    bad.append("%s: surface not found in every direction inside the bounds %s but no error raised" % (fn.__name__, b))
                except ValueError:
                    pass
    return bool(bad), bad


REPLAY = {"pose": replay_pose}
from . import c03 as _c03r   # noqa: E402
REPLAY.update({"radius": _c03r.replay_radius})


def _replay_sht(data):
    from . import c07
    return c07.replay_sht(data)


REPLAY["sht"] = _replay_sht


# ------------------------------------------------------------------------------------ run
def run(ctx):
    from chmpy.shape import shape_descriptors as real
    from chmpy.core.molecule import Molecule
    from chmpy.crystal.crystal import Crystal
    ctx.encode(real.stockholder_weight_descriptor, real.promolecule_density_descriptor, real._compute_property_in_j_channel,
               Molecule.shape_descriptors, Molecule.atomic_shape_descriptors, Crystal.molecular_shape_descriptors, Crystal.molecule_shape_descriptors,
               Crystal.atomic_shape_descriptors, Crystal.atom_group_shape_descriptors)
    ctx.bound("2-3 interior atoms, 1-2 exterior atoms with symbolic positions; angular grid of 4 directions; radii returned by the root finder arbitrary (symbolic)")
    ctx.stub("sphere_promolecule_radii / sphere_stockholder_radii return an arbitrary radius per direction (contract: depends only on geometry relative to the origin; -1 iff no sign change); "
             "SHT.analysis, coefficient expansion and the invariants are opaque recorders (C07, C08); property functions record the points they are asked for")
    ctx.out_of_scope("the discretisation-error clause (a limit); float32 root accuracy; Brent iteration (only its call contract)")
    ctx.stub("invariants / descriptors of a sampled function rest on the transform grid being exact for the degree (ntheta >= l_max + 1): C07's grid rule, run here as a dependency section")
    from . import c03 as _c03
    ctx.stub("the crystal entry points take their Hirshfeld environment from Crystal.molecule_environment(s) / atomic_surroundings / atom_group_surroundings: that they search every cell within the radius is C03's lemma A, run here as a dependency section")
    ctx.parallel_sections([("descriptors", part_descriptors), ("molecule", part_molecule), ("crystal", part_crystal)] + _c03.dependency_sections({"molecule_environment", "molecule_environments", "atomic_surroundings", "atom_group_surroundings"}) + __import__('verif.props.c07', fromlist=['x']).dependency_sections())


def _shim_sd():
    m = load_shimmed("chmpy.shape.shape_descriptors")
    rec = {"radii": [], "dens": [], "prop": [], "inv": [], "expand": []}

    def radii_stub(kind):
        def f(s, o, g, r_min, r_max, tol, iters, iso):
            n = len(g)
            r = np.array([Sym(z3.Real("r%d" % i)) for i in range(n)], dtype=object)
            rec["radii"].append(dict(kind=kind, s=s, o=o, g=g, r_min=r_min, r_max=r_max, iso=iso, r=r))
            return r.view(symx.OArr)
        return f
    m.sphere_stockholder_radii = radii_stub("stock")
    m.sphere_promolecule_radii = radii_stub("pro")

    class Pro:
        def __init__(self, mol):
            self.elements, self.positions = mol
            self.dens = ("dens", self)
            rec["dens"].append(("pro", mol))

        def d_norm(self, x):
            rec["prop"].append(x)
            return (None, np.array([Sym(z3.Real("prop%d" % i)) for i in range(len(x))], dtype=object))

    class Stock:
        def __init__(self, a, b, bg):
            self.args = (a, b, bg)
            self.s = ("stock", self)
            self.dens_a = Pro(a)

        @classmethod
        def from_arrays(cls, n1, p1, n2, p2, background=0.0, **k):
            rec["dens"].append(("stock", (n1, p1, n2, p2, background)))
            return cls((n1, p1), (n2, p2), background)

        def d_norm(self, x):
            rec["prop"].append(x)
            v = np.array([Sym(z3.Real("prop%d" % i)) for i in range(len(x))], dtype=object)
            return (None, None, None, v)
    m.PromoleculeDensity, m.StockholderWeight = Pro, Stock
    m.expand_coeffs_to_full = lambda l, c: (rec["expand"].append(c) or np.array(["full"], dtype=object))
    m.make_invariants = lambda l, c, kinds="NP": (rec["inv"].append((l, c, kinds)) or np.array(["inv"], dtype=object))
    return m, rec


def part_descriptors(ctx):
    m, rec = _shim_sd()
    bad = []
    for fname in ("promolecule_density_descriptor", "stockholder_weight_descriptor"):
        for prop in (None, "d_norm"):
            sht = FakeSHT()
            P = _pos(3)
            E = _pos(2, "e")
            for k in rec:
                del rec[k][:]
            ex = Explorer(max_paths=64)
            if fname.startswith("promolecule"):
                call = lambda: m.promolecule_density_descriptor(sht, np.array([8, 1, 1]), P, with_property=prop, bounds=(0.37, 17.5), isovalue=0.002)
            else:
                call = lambda: m.stockholder_weight_descriptor(sht, np.array([8, 1, 1]), P, np.array([6, 1]), E, with_property=prop,
                                                               bounds=(0.37, 17.5), isovalue=0.5, background=1e-5)

            def body():
                for k in rec:
                    del rec[k][:]
                del sht.analysed[:]
                out = call()
                return out, {k: list(v) for k, v in rec.items()}, list(sht.analysed)
            paths = ex.run(body)
            ctx.add_paths(ex)
            tag = "%s(with_property=%s)" % (fname, prop)
            n_err = n_ok = 0
            for p in paths:
                feas = ex.check(p.pc)[0] != "unsat"
                if not feas:
                    continue
                rs = [Sym(z3.Real("r%d" % i)) for i in range(4)]
                anyneg = z3.Or([r.t < 0 for r in rs])
                if p.exc is not None:
                    if not isinstance(p.exc, ValueError):
                        ctx.harness_error("%s raised %r symbolically" % (tag, p.exc))
                        continue
                    n_err += 1
                    q = ctx.query("%s: ValueError only when some radius is negative (surface not found)" % tag, p.pc, anyneg, ex=ex)
                    if q.verdict == "cex":
                        bad.append((fname, prop, "raises although every radius was found"))
                    continue
                n_ok += 1
                out, r_, analysed = p.value
                q = ctx.query("%s: a result is returned only when every radius is non-negative" % tag, p.pc, z3.Not(anyneg), ex=ex)
                if q.verdict == "cex":
                    bad.append((fname, prop, "describes a surface that was not found"))
                call_ = r_["radii"][0]
                o = call_["o"]
                mean = [sum(P[i, k] for i in range(3)) / 3 for k in range(3)]
                qo = ctx.query("%s: origin given to the root finder = mean atomic position (translation-equivariant, order-independent) [identity]" % tag, [],
                               z3.And([(Sym._lift(o[k]) == mean[k]).t for k in range(3)]), vacuity=False)
                gx, gy, gz = sht.grid_cartesian
                dirs = np.c_[gx.flatten(), gy.flatten(), gz.flatten()]
                okg = np.allclose(np.asarray(call_["g"], float), dirs) and call_["iso"] == (0.002 if fname.startswith("pro") else 0.5)
                okb = call_["r_min"] == 0.37 and call_["r_max"] == 17.5
                ctx.record("%s: root finder receives the grid directions, the requested bounds and isovalue" % tag, "holds" if (okg and okb) else "counterexample", nontrivial=True)
                if qo.verdict == "cex" or not (okg and okb):
                    bad.append((fname, prop, "origin/grid/bounds handed to the root finder are wrong"))
                if prop is not None:
                    pts = r_["prop"][0] if r_["prop"] else None
                    if pts is None:
                        bad.append((fname, prop, "property never sampled"))
                    else:
                        goals = []
                        for i in range(4):
                            for k in range(3):
                                goals.append((Sym._lift(pts[i, k]) == Sym._lift(o[k]) + rs[i] * float(dirs[i, k])).t)
                        qp = ctx.query("%s: the property is sampled exactly at origin + r_i * direction_i [identity]" % tag, [], z3.And(goals), vacuity=False)
                        if qp.verdict == "cex":
                            bad.append((fname, prop, "property sampled at points that are not origin + r*direction (pose dependent)"))
                    arr = analysed[0]
                    okc = all(isinstance(v, SymC) for v in np.asarray(arr, dtype=object).flat) and not r_["expand"]
                    ctx.record("%s: complex channel (radius real part, property imaginary part), coefficients not expanded" % tag, "holds" if okc else "counterexample", nontrivial=True)
                    if okc:
                        flat = list(np.asarray(arr, dtype=object).flat)
                        qc = ctx.query("%s: real channel = radii, imaginary channel = property values [identity]" % tag, [],
                                       z3.And([(flat[i].re == rs[i]).t for i in range(4)] + [(flat[i].im == Sym(z3.Real("prop%d" % i))).t for i in range(4)]), vacuity=False)
                        okc = qc.holds
                    if not okc:
                        bad.append((fname, prop, "property channel wrong"))
                else:
                    okr = len(r_["expand"]) == 1 and all(isinstance(v, Sym) for v in np.asarray(analysed[0], dtype=object).flat)
                    ctx.record("%s: real transform of the radii, coefficients expanded to the full layout before the invariants" % tag, "holds" if okr else "counterexample", nontrivial=True)
                    if not okr:
                        bad.append((fname, prop, "real channel wrong"))
            ctx.record("%s: %d error paths / %d result paths explored" % (tag, n_err, n_ok), "holds" if (n_err >= 1 and n_ok >= 1) else "unknown", nontrivial=True)
    for fname, prop, what in bad[:3]:
        which = "promolecule" if fname.startswith("pro") else "stockholder"
        if "not found" in what or "raises" in what:
            ctx.violation("pose:error:%s" % which, "%s: %s" % (fname, what), {"which": "error"}, replay_pose)
        else:
            ctx.violation("pose:%s:%s" % (which, prop), "%s(with_property=%s): %s" % (fname, prop, what), {"which": which, "with_property": prop}, replay_pose)


def part_molecule(ctx):
    """Molecule.shape_descriptors / atomic_shape_descriptors: what is handed to the descriptor functions"""
    mm = load_shimmed("chmpy.core.molecule")
    import chmpy.shape as shp
    calls = []
    o1, o2, o3 = shp.SHT, shp.promolecule_density_descriptor, shp.stockholder_weight_descriptor
    shp.SHT = lambda l: ("sht", l)
    shp.promolecule_density_descriptor = lambda sph, n, p, **k: calls.append(("pro", sph, n, p, k)) or np.array([0.0])
    shp.stockholder_weight_descriptor = lambda sph, n, p, ne, pe, **k: calls.append(("stock", sph, n, p, ne, pe, k)) or np.array([0.0])
    try:
        from chmpy.core.element import Element
        P = _pos(3)
        mol = mm.Molecule([Element[8], Element[1], Element[17]], P)
        ex = Explorer()
        ex.run(lambda: mol.shape_descriptors(l_max=4, with_property="d_norm"))
        ok = len(calls) == 1 and calls[0][0] == "pro" and list(calls[0][2]) == [8, 1, 17] and calls[0][3] is P
        if ok:
            kw = dict(calls[0][4])
            org = kw.pop("origin", None)
            ok = kw == {"with_property": "d_norm"}
            if ok and org is not None:
                # an explicit origin is the descriptor's default (the mean position) written out: decided by the solver
                org = np.asarray(org, dtype=object).ravel()
                r = ctx.query("Molecule.shape_descriptors: an origin handed to the descriptor is the mean atomic position", [],
                              z3.And([(Sym._lift(org[k]) * 3 == P[0, k] + P[1, k] + P[2, k]).t for k in range(3)]) if len(org) == 3 else z3.BoolVal(False))
                ok = r.verdict == "holds"
        ctx.record("Molecule.shape_descriptors: passes all atomic numbers and positions (and keyword options) to the promolecule descriptor", "holds" if ok else "counterexample", nontrivial=True)
        bad = not ok
        # atomic descriptors for a molecule and for the same molecule with its atoms listed in reverse: per-atom calls must coincide
        d = Sym(z3.Real("d01")), Sym(z3.Real("d02")), Sym(z3.Real("d12"))

        def dm(order):
            full = {(0, 1): d[0], (0, 2): d[1], (1, 2): d[2]}
            n = len(order)
            M = np.empty((n, n), dtype=object)
            for i in range(n):
                for j in range(n):
                    a, b = order[i], order[j]
                    M[i, j] = 0.0 if a == b else full[(min(a, b), max(a, b))]
            return M.view(symx.OArr)
        els = [Element[8], Element[1], Element[17]]
        results = {}
        base = [x.t > 0.5 for x in d]
        for order in ((0, 1, 2), (2, 0, 1)):
            ex = Explorer(assumptions=base, max_paths=600)
            molx = mm.Molecule([els[i] for i in order], np.array([P[i] for i in order], dtype=object).view(symx.OArr))
            type(molx).distance_matrix = property(lambda self, _o=order: dm(self._order))
            molx._order = order

            def body():
                del calls[:]
                molx.atomic_shape_descriptors(l_max=3, radius=6.0, background=1e-5)
                return list(calls)
            paths = ex.run(body)
            ctx.add_paths(ex)
            results[order] = (ex, paths)
        ex0, paths0 = results[(0, 1, 2)]
        ex1, paths1 = results[(2, 0, 1)]
        # compare on the path where every pair is within the radius
        near = [x.t < 6.0 for x in d]
        def pick(ex_, paths_):
            for p in paths_:
                if p.exc is None and ex_.check(p.pc + near)[0] == "sat":
                    return p
            return None
        pa, pb = pick(ex0, paths0), pick(ex1, paths1)
        if pa is None or pb is None:
            ctx.mark_inconclusive("Molecule.atomic_shape_descriptors", "no path with all atoms inside the radius")
        else:
            ca, cb = pa.value, pb.value
            okk = len(ca) == 3 and len(cb) == 3
            for atom in range(3):
                a = ca[atom]
                b = cb[(2, 0, 1).index(atom)]
                same_el = list(a[2]) == list(b[2]) == [els[atom].atomic_number]
                same_pos = a[3].shape == (1, 3) and all(a[3][0, k] is b[3][0, k] is P[atom, k] for k in range(3))
                same_nb = sorted(int(z) for z in a[4]) == sorted(int(z) for z in b[4]) == sorted(els[j].atomic_number for j in range(3) if j != atom)
                same_bounds = a[6].get("bounds") == b[6].get("bounds") and abs(a[6]["bounds"][1] - els[atom].vdw_radius * 3) < 1e-12 and a[6].get("background") == 1e-5
                okk = okk and same_el and same_pos and same_nb and same_bounds
            ctx.record("Molecule.atomic_shape_descriptors: per-atom interior/exterior sets and search bounds are those of the atom's element whatever the listing order", "holds" if okk else "counterexample", nontrivial=True)
            bad = bad or not okk
        if bad:
            ctx.violation("pose:atomic", "Molecule shape descriptor entry points depend on atom order or drop options", {"which": "atomic"}, replay_pose)
    finally:
        shp.SHT, shp.promolecule_density_descriptor, shp.stockholder_weight_descriptor = o1, o2, o3
    # histories on one object (real classes, ground instances): a molecule described once, then moved in place, is described as a
    # fresh molecule at the same coordinates is
    r, det = replay_pose({"which": "moved"})
    ctx.record("Molecule.shape_descriptors of a molecule that was described before and then rotated / transformed / translated in place equals that of a fresh molecule at the same coordinates",
               "counterexample" if r else "holds", nontrivial=True, method="ground instances")
    if r:
        ctx.violation("pose:moved", det[0], {"which": "moved"}, replay_pose)
    try:
        pass
    finally:
        shp.SHT, shp.promolecule_density_descriptor, shp.stockholder_weight_descriptor = o1, o2, o3


def part_crystal(ctx):
    """Crystal.molecular_shape_descriptors: origin = centroid, bounds = (min d/2, max d + 10) with d the distances to the origin"""
    from . import c03
    cm = load_shimmed("chmpy.crystal.crystal")
    import chmpy.shape as shp
    calls = []
    o1, o3 = shp.SHT, shp.stockholder_weight_descriptor
    shp.SHT = lambda l: ("sht", l)
    shp.stockholder_weight_descriptor = lambda sph, n, p, ne, pe, **k: calls.append((sph, n, p, ne, pe, k)) or np.array([0.0])
    try:
        P = _pos(2)
        E = _pos(1, "e")

        class Mol:
            positions = P
            atomic_numbers = np.array([6, 8])

            @property
            def centroid(self):
                return (P[0] + P[1]) / 2
        cr = cm.Crystal.__new__(cm.Crystal)
        cr.molecule_environments = lambda radius=6.0: [(Mol(), np.array([1]), E)]
        ex = Explorer(max_paths=2000)

        def body():
            del calls[:]
            cr.molecular_shape_descriptors(l_max=3, radius=5.0, with_property="d_norm")
            return list(calls)
        paths = ex.run(body)
        ctx.add_paths(ex)
        bad = False
        for p in paths:
            if p.exc is not None:
                ctx.harness_error("molecular_shape_descriptors raised symbolically: %r" % (p.exc,))
                return
            with ex.post(p.pc):
                c = p.value[0]
                k = c[5]
                cen = [(P[0, i] + P[1, i]) / 2 for i in range(3)]
                d2 = [sum((P[a, i] - cen[i]) ** 2 for i in range(3)) for a in range(2)]
                lo, hi = k["bounds"]
                g = z3.And([(Sym._lift(k["origin"][i]) == cen[i]).t for i in range(3)])
                q1 = ctx.query("Crystal.molecular_shape_descriptors path %s: origin = molecular centroid [identity]" % (p.decisions,), [], g, vacuity=False)
                q2 = ctx.query("Crystal.molecular_shape_descriptors path %s: bounds = (min distance to origin / 2, max distance + 10)" % (p.decisions,), ex.pc,
                               z3.And((lo * 2 >= 0).t, (hi - 10 >= 0).t,
                                      z3.Or([((lo * 2) * (lo * 2) == d2[a]).t for a in range(2)]), z3.Or([((hi - 10) * (hi - 10) == d2[a]).t for a in range(2)]),
                                      z3.And([((lo * 2) * (lo * 2) <= d2[a]).t for a in range(2)]), z3.And([((hi - 10) * (hi - 10) >= d2[a]).t for a in range(2)])), ex=ex)
                okk = list(c[1]) == [6, 8] and c[2] is P and list(c[3]) == [1] and c[4] is E and k.get("with_property") == "d_norm"
                bad = bad or q1.verdict == "cex" or q2.verdict == "cex" or not okk
        if bad:
            ctx.violation("pose:crystal", "Crystal.molecular_shape_descriptors passes an origin/bounds that are not functions of the distances to the centroid",
                          {"which": "crystal", "with_property": None}, replay_pose, soft=True)
    finally:
        shp.SHT, shp.stockholder_weight_descriptor = o1, o3
