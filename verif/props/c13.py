"""C13  Re-expressing a crystal (P1, supercell, trigonal axes) preserves the structure.

Supercell: the real as_P1_supercell / to_translational_symmetry run on a symbolic cell (both
construction routes: lengths/angles and arbitrary lattice vectors) with unit-cell molecules as
a stub of symbolic atoms; every new fractional coordinate must be (f + (q,r,s)) / n of a
unit-cell atom with its element.  Trigonal switch: choose_trigonal_lattice on a symbolic
hexagonal cell and symbolic coordinates (H->R->H restores), and the tabulated H-setting
operations conjugated by the basis change act as R-setting operations modulo Z^3."""
import itertools
import time
from fractions import Fraction

import numpy as np
import z3

from .. import symx
from ..symx import Sym, SymAngle, Explorer, load_shimmed, det3, model_value


# ------------------------------------------------------------------------------------- replay
def _coincide(fa, fb, tol=1e-6):
    """every row of fa equals some row of fb modulo 1"""
    d = np.abs(fa[:, None, :] - fb[None, :, :]) % 1
    d = np.minimum(d, 1 - d).max(axis=2)
    return d.min(axis=1).max() < tol


def replay_p1(data):
    """real API: P1 / supercell of a crystal whose cell is given by lattice vectors in a general orientation"""
    from chmpy.crystal import Crystal, UnitCell, AsymmetricUnit
    c0 = Crystal.load("/repo/src/chmpy/tests/test_files/acetic_acid.cif")
    bad = []
    Q = np.array(data.get("Q", np.eye(3).tolist()), float)
    cases = [("cell from lengths and angles", c0)]
    # a triclinic cell in the standard orientation (the test file is orthorhombic: row and column scaling coincide there)
    from chmpy.crystal import SpaceGroup
    from chmpy.core.element import Element
    tri = UnitCell.from_lengths_and_angles([7.1, 8.3, 9.7], [np.radians(78.0), np.radians(96.0), np.radians(107.0)])
    cases.append(("triclinic cell from lengths and angles", Crystal(tri, SpaceGroup(2), AsymmetricUnit(
        [Element[8], Element[1], Element[1]], np.array([[0.21, 0.33, 0.17], [0.31, 0.36, 0.12], [0.15, 0.41, 0.26]])))))
    if not np.allclose(Q, np.eye(3)):
        cases.append(("cell from lattice vectors in a rotated frame", Crystal(UnitCell(np.asarray(c0.unit_cell.direct) @ Q), c0.space_group,
                                                                          AsymmetricUnit(list(c0.asymmetric_unit.elements), np.array(c0.asymmetric_unit.positions), labels=c0.asymmetric_unit.labels))))
    for tag, c in cases:
        uc = c.unit_cell_atoms()
        for size in ((1, 1, 1), (2, 1, 3)):
            for fn in ("as_P1_supercell", "to_translational_symmetry"):
                try:
                    p = getattr(c, fn)(size)
                except Exception as e:
                    bad.append("%s: %s%s raises %s: %s" % (tag, fn, size, type(e).__name__, e))
                    continue
                n = np.array(size)
                fnew = np.asarray(p.asymmetric_unit.positions, float) * n        # in units of the original cell
                if len(fnew) != len(uc["frac_pos"]) * n.prod():
                    bad.append("%s: %s%s has %d atoms, expected %d" % (tag, fn, size, len(fnew), len(uc["frac_pos"]) * n.prod()))
                    continue
                if not _coincide(fnew, uc["frac_pos"]) or not _coincide(uc["frac_pos"], fnew):
                    bad.append("%s: atoms of %s%s do not coincide with the original structure modulo the lattice" % (tag, fn, size))
                znew = sorted(int(z) for z in p.asymmetric_unit.atomic_numbers)
                if znew != sorted(int(z) for z in np.tile(uc["element"], n.prod())):
                    bad.append("%s: %s%s changes the elements" % (tag, fn, size))
                if not np.allclose(np.asarray(p.unit_cell.direct, float) @ np.asarray(p.unit_cell.direct, float).T,
                                   (n[:, None] * np.asarray(c.unit_cell.direct, float)) @ (n[:, None] * np.asarray(c.unit_cell.direct, float)).T, atol=1e-8):
                    bad.append("%s: %s%s cell is not the n1 x n2 x n3 multiple of the original" % (tag, fn, size))
                if abs(p.density - c.density) > 1e-9 * c.density:
                    bad.append("%s: density changes under %s%s" % (tag, fn, size))
    return bool(bad), bad[:4]


def replay_trigonal(data):
    from chmpy.crystal import Crystal
    bad = []
    c = Crystal.load("/repo/src/chmpy/tests/test_files/r3c_example.cif")
    ref = Crystal.load("/repo/src/chmpy/tests/test_files/r3c_example.cif")
    d0 = ref.density
    h_atoms = ref.unit_cell_atoms()
    # the crystal was already in use (atoms, molecules and density asked for) before it is re-expressed
    c.unit_cell_atoms(), c.unit_cell_molecules(), c.symmetry_unique_molecules(), c.density
    c.choose_trigonal_lattice("R")
    if c.space_group.choice != "R":
        bad.append("setting not switched")
    r_atoms = c.unit_cell_atoms()
    if len(r_atoms["frac_pos"]) * 3 != len(h_atoms["frac_pos"]):
        bad.append("atom count does not scale with the cell volume (H %d, R %d)" % (len(h_atoms["frac_pos"]), len(r_atoms["frac_pos"])))
    if abs(c.density - d0) > 1e-9 * d0:
        bad.append("density changes (%.6f -> %.6f)" % (d0, c.density))
    # every R-cell atom coincides with an H-cell atom of the same element modulo the hexagonal lattice
    cart = np.asarray(c.unit_cell.to_cartesian(r_atoms["frac_pos"]), float)
    fh = np.asarray(ref.unit_cell.to_fractional(cart), float)
    for z in np.unique(r_atoms["element"]):
        if not _coincide(fh[r_atoms["element"] == z], h_atoms["frac_pos"][h_atoms["element"] == z], tol=1e-5):
            bad.append("atoms of element %d in the rhombohedral description do not coincide with the hexagonal one" % z)
    c.choose_trigonal_lattice("H")
    if not np.allclose(np.asarray(c.unit_cell.parameters, float), np.asarray(ref.unit_cell.parameters, float), rtol=0, atol=1e-6):
        bad.append("H -> R -> H does not restore the cell")
    if not np.allclose(np.asarray(c.asymmetric_unit.positions, float), np.asarray(ref.asymmetric_unit.positions, float), rtol=0, atol=1e-8):
        bad.append("H -> R -> H does not restore the coordinates")
    # P1 of the rhombohedral description
    c.choose_trigonal_lattice("R")
    p = c.as_P1()
    fnew = np.asarray(p.asymmetric_unit.positions, float)
    if len(fnew) != len(r_atoms["frac_pos"]) or not _coincide(fnew, r_atoms["frac_pos"], tol=1e-5):
        bad.append("as_P1 of the rhombohedral description moves the atoms or changes their number (%d vs %d)" % (len(fnew), len(r_atoms["frac_pos"])))
    if abs(p.density - d0) > 1e-6 * d0:
        bad.append("density of the P1 form of the rhombohedral description differs (%.6f vs %.6f)" % (p.density, d0))
    sc = c.as_P1_supercell((2, 1, 1))
    if len(sc.asymmetric_unit) != 2 * len(r_atoms["frac_pos"]):
        bad.append("2x1x1 supercell of the rhombohedral description has %d atoms (expected %d)" % (len(sc.asymmetric_unit), 2 * len(r_atoms["frac_pos"])))
    return bool(bad), bad[:4]


REPLAY = {"p1": replay_p1, "trig": replay_trigonal}


def replay_density(data):
    """real API: a P-1 crystal with one atom on the inversion centre at the origin (its two images merge into one site with
    summed occupation) and a general-position atom: density of the crystal and of its P1 / supercell forms"""
    from chmpy.crystal import Crystal, UnitCell, SpaceGroup, AsymmetricUnit
    from chmpy.core.element import Element
    uc = UnitCell.from_lengths_and_angles([6.1, 7.3, 8.7], [np.radians(82.0), np.radians(96.0), np.radians(105.0)])
    c = Crystal(uc, SpaceGroup(2), AsymmetricUnit([Element[17], Element[8], Element[1], Element[1]],
                                                  np.array([[0.0, 0.0, 0.0], [0.31, 0.27, 0.22], [0.41, 0.30, 0.17], [0.25, 0.35, 0.31]])))
    bad = []
    d0 = c.density
    vol = abs(np.linalg.det(np.asarray(uc.direct, float)))
    want = (35.453 + 2 * (15.9994 + 2 * 1.00794)) / vol / 0.6022
    if abs(d0 - want) > 1e-3 * want:
        bad.append("density %.5f, cell content Cl + 2 H2O in %.3f A^3 gives %.5f" % (d0, vol, want))
    for fn, arg in (("as_P1", ()), ("as_P1_supercell", ((2, 1, 1),)), ("to_translational_symmetry", ((1, 1, 2),))):
        d1 = getattr(c, fn)(*arg).density
        if abs(d1 - d0) > 1e-6 * d0:
            bad.append("density %.6f becomes %.6f under %s%s" % (d0, d1, fn, arg))
    return bool(bad), bad[:3]


REPLAY["density"] = replay_density
from . import c04 as _c04r   # noqa: E402
REPLAY["cell"] = _c04r.replay_cell
from . import c12 as _c12   # noqa: E402
REPLAY["vec"] = _c12.replay_vectors


def part_density(ctx):
    """density is a property of the structure: the real Crystal.density on unit-cell atoms with symbolic (merged) occupations
    equals the mass of the atoms the P1 form lists, per volume of the P1 cell"""
    from chmpy.core.element import Element
    cm = load_shimmed("chmpy.crystal.crystal")
    ucm = load_shimmed("chmpy.crystal.unit_cell")
    ucm.UnitCell._set_cell_type = lambda self: None
    cm.UnitCell = ucm.UnitCell
    M = np.array([[Sym(z3.Real("m%d%d" % (i, j))) for j in range(3)] for i in range(3)], dtype=object).view(symx.OArr)
    f = np.array([[Sym(z3.Real("f%d_%d" % (i, k))) for k in range(3)] for i in range(3)], dtype=object).view(symx.OArr)
    occ = np.array([Sym(z3.Real("occ%d" % i)) for i in range(3)], dtype=object).view(symx.OArr)
    Z = [17, 8, 1]
    ex = Explorer()
    ex.base = [det3(M).t > 0] + [z3.And(o.t > 0, o.t <= 4) for o in occ]
    cm.Crystal.__init__ = lambda self, uc, sg, asym, **kw: (setattr(self, "unit_cell", uc), setattr(self, "space_group", sg),
                                                           setattr(self, "asymmetric_unit", asym), setattr(self, "properties", dict(kw)))[0]

    def body():
        uc = ucm.UnitCell(M)
        cr = cm.Crystal.__new__(cm.Crystal)
        cr.unit_cell = uc
        cr.properties = {"titl": "t"}
        cart = np.dot(f, uc.direct).view(symx.OArr)
        cr.unit_cell_molecules = lambda: [FakeMol(cart[:1], Z[:1]), FakeMol(cart[1:], Z[1:])]
        cr.unit_cell_atoms = lambda *a, **k: {"element": np.array(Z), "occupation": occ, "frac_pos": f, "asym_atom": np.arange(3), "cart_pos": cart,
                                              "symop": np.array([16484] * 3), "label": np.array(["a", "b", "c"])}
        cr.space_group = None
        d0 = cm.Crystal.density.fget(cr)
        v0 = uc.volume()
        new = cr.as_P1()
        return uc, (d0, v0), new
    paths = ex.run(body)
    ctx.add_paths(ex)
    bad = False
    for p in paths:
        if p.exc is not None:
            ctx.harness_error("density / as_P1 raised symbolically: %r" % (p.exc,))
            continue
        uc, (d0, v0), new = p.value
        mass = sum(symx._nice_fraction(float(Element[int(z)].mass)) for z in new.asymmetric_unit.atomic_numbers)
        with ex.post(p.pc):
            # the volume is generalised to any positive real: that UnitCell.volume() is |det| of the lattice is C12's lemma, and the
            # supercell lemma above shows that the P1 form has the same lattice
            vv = Sym(z3.Real("vol_generalised"))
            d0g = Sym(z3.substitute(Sym._lift(d0).t, (Sym._lift(v0).t, vv.t))) if not z3.is_rational_value(Sym._lift(v0).t) else Sym._lift(d0)
            r = ctx.query("density (merged site occupations symbolic): Crystal.density x volume x 0.6022 = mass of the atoms the P1 form lists (volume generalised to any positive real)",
                          ex.pc + [vv.t > 0], (d0g * vv * symx._nice_fraction(0.6022) == Sym(z3.RealVal(mass))).t, ex=ex, timeout=60)
        if r.verdict == "cex":
            bad = True
    if bad:
        ctx.violation("density:p1", "density of a crystal whose unit-cell sites carry merged occupations differs from the density of its P1 form", {}, replay_density)


# ------------------------------------------------------------------------------------- run
def run(ctx):
    from chmpy.crystal.crystal import Crystal
    from chmpy.crystal.unit_cell import UnitCell
    ctx.encode(Crystal.as_P1, Crystal.as_P1_supercell, Crystal.to_translational_symmetry, Crystal.choose_trigonal_lattice, Crystal.density.fget,
               UnitCell.as_rhombohedral, UnitCell.as_hexagonal)
    ctx.bound("supercell sizes n <= 3 per axis (quick: (1,1,1), (2,1,3), (3,2,1)); 1 molecule of 2 atoms with symbolic coordinates; all cells (both construction routes); "
              "trigonal: symbolic a, c and coordinates, the seven R-lattice groups")
    ctx.assume("reals for doubles")
    ctx.stub("unit_cell_molecules() returns molecules with symbolic Cartesian positions f.D (its correctness is C04's subject)")
    ctx.out_of_scope("density of the new crystal through its own unit_cell_atoms (the density lemma compares with the mass of the atoms the P1 form lists)")
    # the P1 / supercell forms are built from unit_cell_molecules(): that its molecules carry the elements and positions of the
    # unit-cell atoms is C04's lemma, run here (one scenario family) as a dependency section
    from . import c04 as _c04

    def dep_molecules(c):
        _c04.run_cell(c, _c04.Mods(), 3, [6, 1, 8], [2, 0, 1], 2, False, first=[2, 3], descending=0, tag="dependency (C04): ")
    ctx.parallel_sections([("supercell", part_supercell), ("trigonal", part_trigonal), ("density", part_density), ("dependency: unit-cell molecules (C04)", dep_molecules)] + _c12.dependency_sections())


class FakeMol:
    def __init__(self, pos, nums):
        self.positions, self.atomic_numbers = pos, np.array(nums)

    def translated(self, t):
        return FakeMol((self.positions + t).view(symx.OArr), self.atomic_numbers)


def part_supercell(ctx):
    cm = load_shimmed("chmpy.crystal.crystal")
    ucm = load_shimmed("chmpy.crystal.unit_cell")
    ucm.UnitCell._set_cell_type = lambda self: None
    cm.UnitCell = ucm.UnitCell
    f = np.array([[Sym(z3.Real("f%d_%d" % (i, k))) for k in range(3)] for i in range(2)], dtype=object).view(symx.OArr)
    bad = []
    for route in ("lengths and angles", "lattice vectors"):
        for fname in ("as_P1_supercell", "to_translational_symmetry"):
            for size in ((1, 1, 1), (2, 1, 3), (3, 2, 1)):
                ex = Explorer()
                if route == "lengths and angles":
                    a, b, c = (Sym(z3.Real(n)) for n in "abc")
                    angs = [SymAngle(Sym(z3.Real("c" + n)), Sym(z3.Real("s" + n)), "rad") for n in ("al", "be", "ga")]
                    base = [a.t > 0, b.t > 0, c.t > 0] + [z3.And(x.c.t ** 2 + x.s.t ** 2 == 1, x.s.t > 0) for x in angs]
                    gram = 1 - angs[0].c ** 2 - angs[1].c ** 2 - angs[2].c ** 2 + 2 * angs[0].c * angs[1].c * angs[2].c
                    base.append(gram.t > 0)
                    ex.base = base
                    mk = lambda: ucm.UnitCell.from_lengths_and_angles([a, b, c], list(angs))
                else:
                    M = np.array([[Sym(z3.Real("m%d%d" % (i, j))) for j in range(3)] for i in range(3)], dtype=object).view(symx.OArr)
                    ex.base = [det3(M).t > 0]
                    mk = lambda: ucm.UnitCell(M)

                def body():
                    uc = mk()
                    cr = cm.Crystal.__new__(cm.Crystal)
                    cr.unit_cell = uc
                    cr.properties = {"titl": "t"}
                    cart = np.dot(f, uc.direct).view(symx.OArr)
                    cr.unit_cell_molecules = lambda: [FakeMol(cart, [6, 8])]
                    cr.space_group = None
                    new = getattr(cr, fname)(size)
                    return uc, new
                cm.Crystal.__init__ = lambda self, uc, sg, asym, **kw: (setattr(self, "unit_cell", uc), setattr(self, "space_group", sg),
                                                                       setattr(self, "asymmetric_unit", asym), setattr(self, "properties", dict(kw)))[0]
                paths = ex.run(body)
                ctx.add_paths(ex)
                for p in paths:
                    if p.exc is not None:
                        ctx.harness_error("%s(%s) on a cell from %s raised symbolically: %r" % (fname, size, route, p.exc))
                        continue
                    uc, new = p.value
                    D = np.asarray(uc.direct, dtype=object)
                    newpos = np.asarray(new.asymmetric_unit.positions, dtype=object)
                    cells = list(itertools.product(range(size[0]), range(size[1]), range(size[2])))
                    okn = newpos.shape == (2 * len(cells), 3) and [int(z) for z in new.asymmetric_unit.atomic_numbers] == [6, 8] * len(cells)
                    ctx.record("%s%s (%s): %d atoms with their elements, one block per cell" % (fname, size, route, 2 * len(cells)), "holds" if okn else "counterexample", nontrivial=True)
                    if not okn:
                        bad.append((route, fname, size, "atom count / elements"))
                        continue
                    # decomposition (each an identity / cheap query):  (i) supercell lattice = diag(n).D in the ORIGINAL orientation,
                    # (ii) new coordinates = Cartesian positions . inverse(supercell), (iii) Cartesian positions = (f + cell).D.
                    # With inverse.direct = I for any cell (C12) this gives  x'.diag(n) = f + cell.
                    S, Sinv = np.asarray(new.unit_cell.direct, dtype=object), np.asarray(new.unit_cell.inverse, dtype=object)
                    with ex.post(p.pc):
                        r1 = None
                        for j in range(3):
                            for k in range(3):
                                rr = ctx.query("%s%s (%s): supercell lattice vector %d, component %d = n_%d times the original (same orientation)" % (fname, size, route, j, k, j),
                                               ex.pc, (Sym._lift(S[j, k]) == Sym._lift(D[j, k]) * size[j]).t, ex=ex, timeout=20)
                                if r1 is None or rr.verdict == "cex":
                                    r1 = rr
                                if rr.verdict == "cex":
                                    break
                            if r1.verdict == "cex":
                                break
                        g2, g3 = [], []
                        for ci, cell in enumerate(cells):
                            for at in range(2):
                                cart = [sum((f[at, j] + cell[j]) * D[j, k] for j in range(3)) for k in range(3)]
                                row = newpos[2 * ci + at]
                                g2 += [(Sym._lift(row[k]) == sum(cart[i] * Sinv[i, k] for i in range(3))).t for k in range(3)]
                        r2 = ctx.query("%s%s (%s): new fractional coordinates = ((f + cell).D) . inverse(supercell) for the atoms of every cell, in order [identity]"
                                       % (fname, size, route), [], z3.And(g2), vacuity=False, timeout=ctx.default_timeout)
                    if r1.verdict == "cex" or r2.verdict == "cex":
                        bad.append((route, fname, size, "lattice vectors" if r1.verdict == "cex" else "coordinates"))
                        break
    reported = set()
    for route, fname, size, what in bad:
        if route in reported:
            continue
        reported.add(route)
        Q = np.eye(3) if route == "lengths and angles" else np.array([[0.36, 0.48, -0.8], [-0.8, 0.6, 0.0], [0.48, 0.64, 0.6]])
        ctx.violation("p1:%s" % ("standard" if route == "lengths and angles" else "vectors"),
                      "%s%s of a crystal whose cell was given by %s: %s are not those of the original structure" % (fname, size, route, what), {"Q": Q.tolist()}, replay_p1)


def part_trigonal(ctx):
    from chmpy.crystal.space_group import SpaceGroup
    cm = load_shimmed("chmpy.crystal.crystal")
    ucm = load_shimmed("chmpy.crystal.unit_cell")
    ucm.UnitCell._set_cell_type = lambda self: None
    cm.UnitCell = ucm.UnitCell
    a, c = Sym(z3.Real("a")), Sym(z3.Real("c"))
    f = np.array([[Sym(z3.Real("f%d" % k)) for k in range(3)]], dtype=object).view(symx.OArr)
    ex = Explorer(assumptions=[a.t > 0, c.t > 0])
    bad = []

    class Asym:
        positions = f

    def body():
        uc = ucm.UnitCell.hexagonal(a, c)
        cr = cm.Crystal.__new__(cm.Crystal)
        cr.unit_cell, cr.asymmetric_unit, cr.properties = uc, Asym(), {}
        cr.space_group = SpaceGroup(161, "H")
        D0 = np.array(uc.direct, dtype=object)
        cr.choose_trigonal_lattice("R")
        D1, f1, sg1 = np.array(cr.unit_cell.direct, dtype=object), np.array(cr.asymmetric_unit.positions, dtype=object), cr.space_group
        cr.choose_trigonal_lattice("H")
        return D0, D1, f1, sg1, np.array(cr.unit_cell.direct, dtype=object), np.array(cr.asymmetric_unit.positions, dtype=object), cr.space_group
    paths = ex.run(body)
    ctx.add_paths(ex)
    for p in paths:
        if p.exc is not None:
            ctx.harness_error("choose_trigonal_lattice raised symbolically: %r" % (p.exc,))
            return
        D0, D1, f1, sg1, D2, f2, sg2 = p.value
        with ex.post(p.pc):
            oksg = sg1.choice == "R" and sg2.choice == "H" and sg1.international_tables_number == 161 == sg2.international_tables_number
            # same Cartesian position in both descriptions
            g1 = z3.And([(sum(f1[0, j] * D1[j, k] for j in range(3)) == sum(f[0, j] * D0[j, k] for j in range(3))).t for k in range(3)])
            r1 = ctx.query("trigonal: the re-expressed coordinates describe the same Cartesian point in the rhombohedral cell", ex.pc, g1, ex=ex)
            r2 = ctx.query("trigonal: cell volume ratio |det(R cell)| * 3 = |det(H cell)|", ex.pc, ((det3(D1) * 3) * (det3(D1) * 3) == det3(D0) * det3(D0)).t, ex=ex)
            g3 = z3.And([(D2[i, j] == D0[i, j]).t for i in range(3) for j in range(3)] + [(f2[0, k] == f[0, k]).t for k in range(3)])
            r3 = ctx.query("trigonal: H -> R -> H restores the lattice vectors and the coordinates", ex.pc, g3, ex=ex, timeout=ctx.default_timeout)
        if not oksg or any(r.verdict == "cex" for r in (r1, r2, r3)):
            bad.append("switching the setting")
    # operations: H-setting operations expressed on rhombohedral axes act as R-setting operations modulo Z^3
    TRH = np.array(((-1, 1, 1), (2, 1, 1), (-1, -2, 1))) / 3.0      # row convention: D_R = T . D_H  =>  f_H = f_R . T
    T = [[Fraction(-1, 3), Fraction(1, 3), Fraction(1, 3)], [Fraction(2, 3), Fraction(1, 3), Fraction(1, 3)], [Fraction(-1, 3), Fraction(-2, 3), Fraction(1, 3)]]
    import inspect
    src = inspect.getsource(cm.Crystal.choose_trigonal_lattice)
    ctx.note("basis change matrix read from choose_trigonal_lattice: T(H->R) = 1/3 ((-1,1,1),(2,1,1),(-1,-2,1))" if "(-1, 1, 1), (2, 1, 1), (-1, -2, 1)" in src
             else "basis change matrix in choose_trigonal_lattice is not the recognised one: operation lemma uses the matrix found by running the method")
    y = np.array([[Sym(z3.Real("y%d" % k)) for k in range(3)]], dtype=object)
    ys = [y[0, k].t for k in range(3)]
    Tm = np.array(T, dtype=object)
    Tinv = np.array([[Fraction(int(round(v))) for v in row] for row in np.linalg.inv(np.array(T, float))], dtype=object)
    tasks = []
    for num in (146, 148, 155, 160, 161, 166, 167):
        H, R = SpaceGroup(num, "H"), SpaceGroup(num, "R")
        goals = []
        matched = set()
        okm = True
        for g in H.symmetry_operations:
            # y (R coords) -> x = y.T (H coords) -> g(x) -> back: g(x).Tinv
            xh = np.dot(y, Tm)
            img = np.dot(g.apply(xh), Tinv)
            found = None
            for k, h in enumerate(R.symmetry_operations):
                d = img - h.apply(y)
                const = [z3.simplify(z3.substitute(d[0, q].t, *[(v, z3.RealVal(0)) for v in ys])) for q in range(3)]
                lin0 = all(z3.is_true(z3.simplify(z3.substitute(d[0, q].t, *[(v, z3.RealVal(1 if vv == w else 0)) for vv, v in enumerate(ys)]) - const[q] == 0))
                           for q in range(3) for w in range(3))
                if lin0 and all(z3.is_rational_value(cc) and cc.denominator_as_long() == 1 for cc in const):
                    found = k
                    goals.append(z3.And([z3.IsInt(d[0, q].t) for q in range(3)]))
                    break
            if found is None:
                okm = False
            else:
                matched.add(found)
        okm = okm and len(matched) == len(R.symmetry_operations) and len(H.symmetry_operations) == 3 * len(R.symmetry_operations)
        goal = z3.And(z3.BoolVal(okm), z3.ForAll(ys, z3.And(goals)) if goals else z3.BoolVal(True))
        tasks.append(dict(name="trigonal: group %d: every H-setting operation, re-expressed on rhombohedral axes, acts as an R-setting operation modulo Z^3 (3-to-1 onto all of them)" % num,
                          assumptions=[], goal=goal, vacuity=False, extract=lambda m: {}))
    res = ctx.query_many(tasks)
    if any(r.verdict == "cex" for r in res):
        bad.append("tabulated operations of the two settings are not related by the basis change")
    # the symbolic lemma builds every crystal fresh; a crystal already in use (memoised atoms, molecules, density) that is re-expressed and
    # then expanded: ground instance on the real code
    gr, gdet = replay_trigonal({})
    ctx.record("trigonal: a crystal already asked for its atoms, molecules and density, switched H -> R -> H -> R and expanded to P1 / a supercell (ground instance, real code)",
               "holds" if not gr else "counterexample", nontrivial=True, method="ground instances")
    if gr:
        bad.append(gdet[0])
    if bad:
        ctx.violation("trig:switch", "hexagonal <-> rhombohedral re-expression does not preserve the structure: %s" % bad[0], {}, replay_trigonal)
