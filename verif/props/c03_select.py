"""C03 lemma C: given the KD-tree's answers (symbolic predicates 'distance <= r', forked),
the query functions return exactly the selected slab rows, aligned, centre atoms excluded."""
import time

import numpy as np
import z3

from ..symx import Sym, SymBool, Explorer, OArr, model_value
from . import c03 as A


def _d2(p, x):
    return sum((p[k] - x[k]) * (p[k] - x[k]) for k in range(3))


def make_kdtree(registry, order_reversed=True):
    class KD:
        def __init__(self, pts, *a, **k):
            self.pts = np.asarray(pts, dtype=object)
            registry.append(self)
            self.calls = []

        def query_ball_point(self, x, r, *a, **k):
            self.calls.append(("ball", x, r))
            out = [i for i in range(len(self.pts)) if bool(_d2(self.pts[i], x) <= r * r)]
            return out[::-1] if order_reversed else out

        def query(self, x, *a, **k):
            self.calls.append(("nn", x))
            n = len(self.pts)
            for i in range(n):
                cond = SymBool(z3.BoolVal(True))
                for j in range(n):
                    if j != i:
                        cond = cond & (_d2(self.pts[i], x) <= _d2(self.pts[j], x))
                if i == n - 1 or bool(cond):
                    return _d2(self.pts[i], x).sqrt(), i
    return KD


def _rows(P):
    ids = {}
    for i in range(P.shape[0]):
        ids[P[i, 0].t.get_id()] = i
    return ids


def _row_of(ids, vec):
    v = vec[0]
    return ids.get(v.t.get_id()) if isinstance(v, Sym) else None


def lemma_C(ctx, mods, only=None):
    ctx.bound("(C) selection: slab of 3-4 rows with symbolic Cartesian positions (pairwise > 0.01 apart), 1 origin / 1 site / 2-atom molecule, "
              "all answer patterns of query_ball_point / nearest-neighbour query explored by forking")
    ctx.stub("cKDTree.query_ball_point(x, r) = the indices with |p_i - x| <= r in arbitrary order (returned reversed); "
             "cKDTree.query(x) = (distance, index) of a nearest point")
    cm = mods.cm
    T0 = time.time()
    N = 4
    P = A._mat("p", N, 3)
    ids = _rows(P)
    element = np.array([6, 1, 8, 7])
    asym = np.array([0, 1, 0, 1])
    sep = [(_d2(P[i], P[j]) > 1e-4).t for i in range(N) for j in range(i + 1, N)]
    sep += [z3.And(x.t >= 0, x.t <= 10) for x in P.flat]
    cvars = {}

    def data_from(mdl, fname, centre=None, mol=None, nrows=N):
        rows = [[float(model_value(mdl, P[i, k].t)) for k in range(3)] for i in range(nrows)]
        d = {"D": (np.eye(3) * 60.0).tolist(), "which": fname, "r": float(model_value(mdl, r.t)),
             "Z": [int(z) for z in element[:nrows]]}
        atoms = rows
        if centre is not None:
            cv = [float(model_value(mdl, x.t)) for x in centre]
            if fname == "atomic_surroundings":
                atoms = [cv] + rows
                d["Z"] = [6] + d["Z"]
            d["origin"] = cv
        # cell edge: small enough that no two atoms fall within unit_cell_atoms' *fractional* merge tolerance (0.01)
        arr = np.array(atoms)
        dmin = min(np.linalg.norm(arr[i] - arr[j]) for i in range(len(arr)) for j in range(i + 1, len(arr)))
        edge = max(0.5, min(25.0, 40.0 * dmin))
        d["D"] = (np.eye(3) * edge).tolist()
        d["frac"] = (arr / edge).tolist()
        if mol is not None:
            d["mol"] = mol
        return d


    def fresh_setup(n_rows):
        ex = Explorer(max_paths=3000)
        uc, D, Iv, L = A.symbolic_cell(mods, ex)
        cr = A.make_crystal(mods, uc)
        Pn = P[:n_rows]
        slab = {"asym_atom": asym[:n_rows], "frac_pos": np.dot(Pn, Iv).view(OArr), "element": element[:n_rows],
                "symop": np.array([16484, 16484, 3198, 3198][:n_rows]), "label": np.array(["a", "b", "c", "d"][:n_rows]),
                "occupation": np.array([1.0, 0.5, 1.0, 0.5][:n_rows]), "cart_pos": Pn.view(OArr),
                "cell": np.array([[0, 0, 0], [0, 0, 0], [1, 0, 0], [1, 0, 0]][:n_rows], dtype=float),
                "n_uc": 2, "n_cells": n_rows // 2}
        cr.slab = lambda bounds=None, **k: dict(slab)
        reg = []
        cm.KDTree = make_kdtree(reg)
        return ex, cr, slab, reg, Iv

    r = Sym(z3.Real("r"))
    o = np.array([Sym(z3.Real("o%d" % k)) for k in range(3)], dtype=object)
    failures = []

    def model_of(ex, pc):
        rr, sol = ex.check(pc, timeout_ms=20000)
        return sol.model() if rr == "sat" else None

    def member_queries(tag, ex, p, selected, expect_in):
        """for every row: pc |- expect_in(i) if selected else pc |- not expect_in(i)"""
        tasks = []
        for i, cond in expect_in.items():
            goal = cond if i in selected else z3.Not(cond)
            tasks.append((i, ctx.query("%s path %d row %d %s" % (tag, p.idx, i, "selected => within radius" if i in selected else "omitted => outside"),
                                       p.pc, goal, ex=ex, vacuity=False)))
        return tasks

    if only in (None, "atoms_in_radius"):
        # ---- atoms_in_radius
        ex, cr, slab, reg, Iv = fresh_setup(N)
        ex.base = [r.t > 0, r.t <= 8] + sep + [z3.And(x.t >= 0, x.t <= 10) for x in o]
        paths = ex.run(lambda: cr.atoms_in_radius(r, origin=o))
        ctx.add_paths(ex)
        t0 = time.time()
        nq = 0
        for n, p in enumerate(paths):
            p.idx = n
            if p.exc is not None:
                ctx.harness_error("atoms_in_radius raised in lemma C: %r" % (p.exc,))
                break
            res = p.value
            sel = [_row_of(ids, row) for row in res["cart_pos"]]
            ok = None not in sel and len(set(sel)) == len(sel)
            for m, i in enumerate(sel if ok else []):
                ok = ok and res["element"][m] == element[i] and res["asym_atom"][m] == asym[i] and res["uc_atom"][m] == i % 2
                ok = ok and res["label"][m] == slab["label"][i] and res["occupation"][m] == slab["occupation"][i]
                ok = ok and all(float(a) == float(b) for a, b in zip(res["cell"][m], slab["cell"][i]))
            exp = {i: (_d2(P[i], o) <= r * r).t for i in range(N)}
            bad = not ok
            if ok:
                mq = member_queries("C:atoms_in_radius", ex, p, set(sel), exp)
                for i, q in mq:
                    nq += 1
                    bad = bad or q.verdict == "cex"
            if bad:
                mdl = next((q.model for _, q in mq if q.verdict == "cex"), None) if ok else None
                mdl = mdl or model_of(ex, p.pc)
                failures.append(("atoms_in_radius", "rows returned are not exactly the rows the ball query selected, aligned",
                                 data_from(mdl, "atoms_in_radius", centre=o) if mdl is not None else None))
                break
        ctx.record("C:atoms_in_radius: %d answer patterns, arrays aligned and membership = ball query" % len(paths),
                   "counterexample" if any(f[0] == "atoms_in_radius" for f in failures) else "holds", seconds=time.time() - t0, nontrivial=True)

    if only in (None, "atomic_surroundings"):
        # ---- atomic_surroundings (1 site, 3 slab rows)
        ex, cr, slab, reg, Iv = fresh_setup(3)
        c0 = np.array([[Sym(z3.Real("c%d" % k)) for k in range(3)]], dtype=object).view(OArr)
        cr.asymmetric_unit = A.FakeAsym(np.dot(c0, Iv).view(OArr), [6])
        cr.unit_cell.to_cartesian = lambda x: c0 if x is cr.asymmetric_unit.positions else np.dot(x, cr.unit_cell.direct)
        ctx.stub("(C) atomic_surroundings: to_cartesian(asymmetric-unit fractional positions c.I) = c (uses I.D = 1)")
        ex.base = [r.t > 0, r.t <= 8] + [(_d2(P[i], P[j]) > 1e-4).t for i in range(3) for j in range(i + 1, 3)]
        ex.base += [z3.And(x.t >= 0, x.t <= 10) for x in list(P[:3].flat) + list(c0[0])]
        paths = ex.run(lambda: cr.atomic_surroundings(radius=r))
        ctx.add_paths(ex)
        t0 = time.time()
        for n, p in enumerate(paths):
            p.idx = n
            if p.exc is not None:
                ctx.harness_error("atomic_surroundings raised in lemma C: %r" % (p.exc,))
                break
            s = p.value[0]
            nb = s["neighbours"]
            sel = [_row_of(ids, row) for row in nb["cart_pos"]]
            ok = None not in sel and len(set(sel)) == len(sel) and s["centre"]["asym_atom"] == 0 and s["centre"]["element"] == 6
            bad = not ok
            if ok:
                with ex.post(p.pc):
                    for m, i in enumerate(sel):
                        ok = ok and nb["element"][m] == element[i] and nb["asym_atom"][m] == asym[i]
                        dq = ctx.query("C:atomic_surroundings path %d row %d reported distance" % (n, i), ex.pc,
                                       ((nb["distance"][m] * nb["distance"][m] == _d2(P[i], c0[0])) & (nb["distance"][m] >= 0)).t, ex=ex, vacuity=False)
                        bad = bad or dq.verdict == "cex"
                exp = {i: z3.And((_d2(P[i], c0[0]) <= r * r).t, (_d2(P[i], c0[0]) > 1e-6).t) for i in range(3)}
                mq = member_queries("C:atomic_surroundings", ex, p, set(sel), exp)
                for i, q in mq:
                    bad = bad or q.verdict == "cex"
                bad = bad or not ok
            if bad:
                mdl = next((q.model for _, q in mq if q.verdict == "cex"), None) if ok else None
                mdl = mdl or model_of(ex, p.pc)
                failures.append(("atomic_surroundings", "neighbours are not exactly the rows within the radius minus the site itself",
                                 data_from(mdl, "atomic_surroundings", centre=c0[0], nrows=3) if mdl is not None else None))
                break
        ctx.record("C:atomic_surroundings: %d answer patterns" % len(paths),
                   "counterexample" if any(f[0] == "atomic_surroundings" for f in failures) else "holds", seconds=time.time() - t0, nontrivial=True)

    # ---- molecule_environment / atom_group_surroundings: molecule = slab rows 0 and 1
    for fname in [w for w in ("molecule_environment", "molecule_environments", "atom_group_surroundings") if only in (None, w)]:
        ex, cr, slab, reg, Iv = fresh_setup(N)
        mol = A.FakeMol(np.array([P[0], P[1]], dtype=object).view(OArr), [6, 1])
        ex.base = [r.t > Sym._lift(0.01).t, r.t <= 8] + sep
        if fname == "molecule_environment":
            fn = lambda: cr.molecule_environment(mol, radius=r)
        elif fname == "molecule_environments":
            cr.symmetry_unique_molecules = lambda: [mol]
            fn = lambda: cr.molecule_environments(radius=r)[0]
        else:
            cr.symmetry_unique_molecules = lambda: [mol]
            fn = lambda: cr.atom_group_surroundings([0, 1], radius=r)
        paths = ex.run(fn)
        ctx.add_paths(ex)
        t0 = time.time()
        for n, p in enumerate(paths):
            p.idx = n
            if p.exc is not None:
                ctx.harness_error("%s raised in lemma C: %r" % (fname, p.exc))
                break
            if fname in ("molecule_environment", "molecule_environments"):
                _, els, pos = p.value
            else:
                (cel, cpos), (els, pos) = p.value
            sel = [_row_of(ids, row) for row in pos]
            ok = None not in sel and len(set(sel)) == len(sel) and all(els[m] == element[i] for m, i in enumerate(sel))
            exp = {0: z3.BoolVal(False), 1: z3.BoolVal(False)}
            for i in (2, 3):
                exp[i] = z3.Or((_d2(P[i], P[0]) <= r * r).t, (_d2(P[i], P[1]) <= r * r).t)
            bad = not ok
            mq = []
            if ok:
                mq = member_queries("C:" + fname, ex, p, set(sel), exp)
                for i, q in mq:
                    bad = bad or q.verdict == "cex"
            if bad:
                mdl = next((q.model for _, q in mq if q.verdict == "cex"), None) or model_of(ex, p.pc)
                failures.append((fname, "environment is not exactly the rows within the radius of some molecule atom minus the molecule itself",
                                 data_from(mdl, fname, mol=[0, 1]) if mdl is not None else None))
                break
        ctx.record("C:%s: %d answer patterns" % (fname, len(paths)),
                   "counterexample" if any(f[0] == fname for f in failures) else "holds", seconds=time.time() - t0, nontrivial=True)

    ctx.note("lemma C total %.1fs" % (time.time() - T0))
    import chmpy.crystal.crystal as realc
    cm.KDTree = realc.KDTree
    for fname, what, data in failures:
        if data is None:
            data = {"D": [[5.0, 0, 0], [1.0, 6.0, 0], [0.5, 1.5, 7.0]], "r": 4.5, "origin": [1.0, 2.0, 3.0],
                    "frac": [[0.1, 0.2, 0.3], [0.25, 0.3, 0.35]], "Z": [6, 1], "which": fname}
        ctx.violation("radius:select:%s" % fname, what, data, A.replay_radius)
