"""pyx2py -- line-oriented Cython -> Python translation of chmpy's kernels (engine E-C).

Cython is not installed here, so the compiled modules cannot be rebuilt; properties anchored
in .pyx kernels are decided on a translation of the *source*, validated on every run against
the compiled .so on concrete inputs.  The translation keeps the declared C type of every
variable: assignments are coerced (int truncation, unsigned wrap mod 2^32, float32/float64)
and `/` is C division when both operands are integers."""
import ast
import re
import types

TYPE_RE = re.compile(
    r"^(?P<const>const\s+)?(?P<base>unsigned\s+int|unsigned|int|long|float|double\s+complex|double|bint|char|size_t|"
    r"c?np\.ndarray\[[^\]]*\]|[A-Z]\w*)(?P<ptr>\s*\*)?(?P<mv>\[[^\]]*\])?\s+")

C_FUNCS = ("sqrt", "ceil", "log", "pow", "fabs", "cos", "sin", "floor", "exp")


class TranslateError(Exception):
    pass


def _split_top(s, sep=","):
    out, depth, cur = [], 0, ""
    for ch in s:
        if ch in "([{":
            depth += 1
        elif ch in ")]}":
            depth -= 1
        if ch == sep and depth == 0:
            out.append(cur)
            cur = ""
        else:
            cur += ch
    if cur.strip():
        out.append(cur)
    return out


def _norm_type(m):
    base = re.sub(r"\s+", " ", m.group("base"))
    if base == "unsigned":
        base = "unsigned int"
    return base, m.group("mv"), bool(m.group("ptr"))


def _arg(a):
    """typed argument -> (python text, name, ctype or None)"""
    a = a.strip()
    if not a or a in ("self",) or a.startswith("*"):
        return a, None, None
    default = None
    if "=" in a:
        a, default = a.split("=", 1)
        a = a.strip()
    m = TYPE_RE.match(a + " ") if " " in a else None
    ctype = None
    name = a
    if m and a[m.end() - 1:].strip():
        base, mv, ptr = _norm_type(m)
        name = a[m.end() - 1:].strip() if a[m.end() - 1:].strip() else a
        name = a[m.end():].strip() or name
        ctype = base + (mv or "")
    arr = re.match(r"^(\w+)\s*\[\d*\]$", name)
    if arr:
        name = arr.group(1)
        ctype = (ctype or "") + "[]"
    if not re.match(r"^\w+$", name):
        raise TranslateError("argument %r" % a)
    return name + ("=" + default if default is not None else ""), name, ctype


def _casts(line):
    """<type>(expr) / <type>name -> __cast__("type", expr)"""
    pat = re.compile(r"<\s*(unsigned\s+int|unsigned|int|long|double|float)\s*>\s*")
    while True:
        m = pat.search(line)
        if not m:
            return line
        t = re.sub(r"\s+", " ", m.group(1))
        rest = line[m.end():]
        if rest.startswith("("):
            depth = 0
            for i, ch in enumerate(rest):
                depth += ch == "("
                depth -= ch == ")"
                if depth == 0:
                    break
            inner, tail = rest[:i + 1], rest[i + 1:]
        else:
            mm = re.match(r"[\w\.]+(\[[^\]]*\])?", rest)
            inner, tail = mm.group(0), rest[mm.end():]
        line = line[:m.start()] + '__cast__("%s", %s)' % (t, inner) + tail


def to_python(src):
    """Cython source text -> Python source text with __decl__ markers."""
    raw = src.splitlines()
    # join multi-line def/cdef/cpdef headers
    lines, i = [], 0
    while i < len(raw):
        ln = raw[i]
        st = ln.strip()
        if re.match(r"^(cdef|cpdef|def)\b", st) and "(" in st and not st.startswith("cdef class"):
            depth = ln.count("(") - ln.count(")")
            while depth > 0 and i + 1 < len(raw):
                i += 1
                ln = ln.rstrip() + " " + raw[i].strip()
                depth = ln.count("(") - ln.count(")")
        lines.append(ln)
        i += 1
    out = []
    in_class_indent = None
    for ln in lines:
        st = ln.strip()
        ind = ln[: len(ln) - len(ln.lstrip())]
        if in_class_indent is not None and st and len(ind) <= in_class_indent and not st.startswith("#"):
            in_class_indent = None
        if re.match(r"^(cimport\b|from\s+\S+\s+cimport\b|from cython\.parallel import|c?np\.import_array\(\))", st) or st.startswith("@cython."):
            continue
        ln = re.sub(r"\b(\d+)U\b", r"\1", ln)
        ln = ln.replace("prange(", "range(")
        if st.startswith("#"):
            out.append(ln)
            continue
        if re.match(r"^with\s+nogil\s*:", st):
            out.append(ind + "if True:")
            continue
        m = re.match(r"^cdef\s+class\s+(\w+)\s*:", st)
        if m:
            out.append(ind + "class %s:" % m.group(1))
            in_class_indent = len(ind)
            continue
        # function headers
        m = re.match(r"^(cdef|cpdef|def)\s+(.*?)(\w+)\s*\((.*)\)\s*(?:noexcept)?\s*(?:nogil)?\s*:\s*$", st)
        if m and (m.group(1) == "def" or True) and not re.match(r"^cdef\s+.*=", st):
            kind, rtype, name, args = m.groups()
            rtype = rtype.replace("inline", "").strip()
            pyargs, decls = [], []
            for a in _split_top(args):
                txt, nm, ct = _arg(a)
                if txt:
                    pyargs.append(txt)
                if nm and ct:
                    decls.append((nm, ct))
            out.append(ind + "def %s(%s):" % (name, ", ".join(pyargs)))
            body_ind = "\0BODY\0"   # replaced by the indentation of the first body line
            out.append(body_ind + '__decl__("__return__", %r)' % rtype)
            for nm, ct in decls:
                out.append(body_ind + '__decl__(%r, %r)' % (nm, ct))
                out.append(body_ind + "%s = __coerce__(%r, %s)" % (nm, ct, nm))
            continue
        m = re.match(r"^cdef\s+(.*)$", st)
        if m:
            rest = m.group(1).strip()
            rest = re.sub(r"^(public|readonly)\s+", "", rest)
            if in_class_indent is not None and len(ind) == in_class_indent + 4 and "=" not in rest and "(" not in rest:
                continue   # attribute declaration of a cdef class
            mp = re.match(r"^double\s*\*\s*(\w+)\s*=\s*\[$", rest)
            if mp:
                out.append(ind + "%s = [" % mp.group(1))
                continue
            tm = TYPE_RE.match(rest)
            if not tm:
                raise TranslateError("cdef statement not understood: %r" % st)
            base, mv, ptr = _norm_type(tm)
            decls = rest[tm.end():]
            is_carray_type = bool(mv) and re.match(r"^\[\d+\]$", mv or "")
            for d in _split_top(decls):
                d = d.strip().rstrip(";")
                if not d:
                    continue
                init = None
                if "=" in d:
                    d, init = d.split("=", 1)
                    d, init = d.strip(), init.strip()
                arr = re.match(r"^(\w+)\s*\[(\d+)\]$", d)
                if arr or is_carray_type:
                    nm = arr.group(1) if arr else d
                    n = arr.group(2) if arr else mv.strip("[]")
                    out.append(ind + '__decl__(%r, %r)' % (nm, base + "[]"))
                    out.append(ind + "%s = __carray__(%r, %s)" % (nm, base, n))
                    continue
                if not re.match(r"^\w+$", d):
                    raise TranslateError("declarator %r in %r" % (d, st))
                ctype = base + ((mv or "") if not is_carray_type else "")
                out.append(ind + '__decl__(%r, %r)' % (d, ctype))
                if init is not None:
                    out.append(ind + "%s = %s" % (d, _casts(init)))
            continue
        ln = _casts(ln)
        if ln.rstrip().endswith(";"):
            ln = ln.rstrip().rstrip(";")
        out.append(ln)
    # resolve body indentation markers
    for k, ln in enumerate(out):
        if ln.startswith("\0BODY\0"):
            j = k
            while j < len(out) and (out[j].startswith("\0BODY\0") or not out[j].strip() or out[j].strip().startswith("#")):
                j += 1
            nxt = out[j] if j < len(out) else "    "
            bi = nxt[: len(nxt) - len(nxt.lstrip())]
            out[k] = bi + ln[len("\0BODY\0"):]
    return "\n".join(out) + "\n"


def _cat(ctype):
    if ctype is None:
        return None
    if "[" in ctype or "ndarray" in ctype or ctype.endswith("*"):
        return None
    return {"int": "int", "long": "int", "size_t": "u64", "unsigned int": "u32", "float": "f32", "double": "f64", "bint": "int", "char": "int"}.get(ctype)


def _elem_cat(ctype):
    if ctype is None or "[" not in ctype:
        return None
    return _cat(ctype.split("[")[0].strip())


class _Rewriter(ast.NodeTransformer):
    def __init__(self):
        self.types = [{}]

    def visit_FunctionDef(self, node):
        table = {}
        for st in ast.walk(node):
            if isinstance(st, ast.Expr) and isinstance(st.value, ast.Call) and isinstance(st.value.func, ast.Name) and st.value.func.id == "__decl__":
                table[st.value.args[0].value] = st.value.args[1].value
        self.types.append(table)
        self.generic_visit(node)
        self.types.pop()
        node.body = [s for s in node.body if not self._is_decl(s)] or [ast.Pass()]
        rt = _cat(table.get("__return__"))
        if rt:
            for st in ast.walk(node):
                if isinstance(st, ast.Return) and st.value is not None and not getattr(st, "_done", False):
                    st.value = self._co(rt, st.value)
                    st._done = True
        return node

    @staticmethod
    def _is_decl(s):
        return isinstance(s, ast.Expr) and isinstance(s.value, ast.Call) and isinstance(s.value.func, ast.Name) and s.value.func.id == "__decl__"

    def _co(self, cat, value):
        return ast.Call(func=ast.Name(id="__coerce__", ctx=ast.Load()), args=[ast.Constant(cat), value], keywords=[])

    def _target_cat(self, t):
        tab = self.types[-1]
        if isinstance(t, ast.Name):
            return _cat(tab.get(t.id))
        if isinstance(t, ast.Subscript) and isinstance(t.value, ast.Name):
            return _elem_cat(tab.get(t.value.id))
        return None

    def visit_BinOp(self, node):
        self.generic_visit(node)
        if isinstance(node.op, ast.Div):
            return ast.Call(func=ast.Name(id="__cdiv__", ctx=ast.Load()), args=[node.left, node.right], keywords=[])
        if isinstance(node.op, ast.Mod):
            return ast.Call(func=ast.Name(id="__cmod__", ctx=ast.Load()), args=[node.left, node.right], keywords=[])
        return node

    def visit_Assign(self, node):
        self.generic_visit(node)
        if len(node.targets) == 1:
            c = self._target_cat(node.targets[0])
            if c and not (isinstance(node.value, ast.Call) and isinstance(node.value.func, ast.Name) and node.value.func.id in ("__coerce__", "__carray__")):
                node.value = self._co(c, node.value)
        return node

    def visit_AugAssign(self, node):
        self.generic_visit(node)
        import copy
        load = copy.deepcopy(node.target)
        for n in ast.walk(load):
            if hasattr(n, "ctx"):
                n.ctx = ast.Load()
        binop = ast.BinOp(left=load, op=node.op, right=node.value)
        if isinstance(node.op, ast.Div):
            binop = ast.Call(func=ast.Name(id="__cdiv__", ctx=ast.Load()), args=[load, node.value], keywords=[])
        c = self._target_cat(node.target)
        value = self._co(c, binop) if c else binop
        return ast.Assign(targets=[node.target], value=value)

    def visit_Body(self, body):
        return [s for s in body if not self._is_decl(s)]


def _strip_decls(tree):
    for node in ast.walk(tree):
        for field in ("body", "orelse", "finalbody"):
            b = getattr(node, field, None)
            if isinstance(b, list):
                nb = [s for s in b if not _Rewriter._is_decl(s)]
                if not nb and b:
                    nb = [ast.Pass()]
                setattr(node, field, nb)
    return tree


def translate(pyx_path):
    src = open(pyx_path).read()
    py = to_python(src)
    try:
        tree = ast.parse(py, pyx_path)
    except SyntaxError as e:
        raise TranslateError("translated text does not parse: %s (line %s: %r)" % (e.msg, e.lineno, py.splitlines()[e.lineno - 1] if e.lineno else ""))
    tree = _Rewriter().visit(tree)
    tree = _strip_decls(tree)
    ast.fix_missing_locations(tree)
    return py, tree


def load(pyx_path, modname, runtime, extra=None, package=None):
    """Translate and exec into a fresh module; ``runtime`` supplies __cdiv__, __coerce__, math functions ..."""
    py, tree = translate(pyx_path)
    code = compile(tree, pyx_path, "exec")
    m = types.ModuleType(modname)
    m.__file__ = pyx_path
    m.__package__ = package or modname.rsplit(".", 1)[0]
    m.__dict__.update(runtime)
    if extra:
        m.__dict__.update(extra)
    exec(code, m.__dict__)
    m.__translated_source__ = py
    return m
