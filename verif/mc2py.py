"""mc2py -- translation of chmpy/mc/_mc_lewiner.pyx (Cython with cdef classes and malloc'd arrays) into plain
Python, regenerated from the current source text on every run.  C arrays become Python lists, casts and C type
declarations are dropped, `__cinit__` runs at the start of `__init__`.  The translation is validated against the
compiled module on concrete fields (same faces, same vertices) before anything is concluded from it; integer
and floating point *types* are not kept (the topology of the mesh does not depend on float32 rounding)."""
import re
import types

CTYPES = r"(?:unsigned\s+|signed\s+)?(?:int|double|float|char|bint|long|Cell|LutProvider|Lut)"
CAST = re.compile(r"<\s*(?:unsigned\s+|signed\s+)?(?:double|float|int|char|long)\s*\*?\s*>")
DECL = re.compile(r"^(\s*)cdef\s+" + CTYPES + r"\b\s*(\*+|\[[^\]]*\])?\s*(.*)$")
FUNC = re.compile(r"^(\s*)(?:cdef|cpdef|def)\s+(?:inline\s+)?(?:" + CTYPES + r"\s*\*?\s+|void\s+)?(\w+)\s*\((.*)$")


class TranslateError(Exception):
    pass


def _split_top(s, sep=","):
    out, depth, cur = [], 0, ""
    for ch in s:
        if ch in "([{":
            depth += 1
        elif ch in ")]}":
            depth -= 1
        if ch == sep and depth == 0:
            out.append(cur)
            cur = ""
        else:
            cur += ch
    if cur.strip():
        out.append(cur)
    return out


def _arg(a):
    a = a.strip()
    if not a or a.startswith("*") or a == "self":
        return a
    default = None
    if "=" in a:
        a, default = a.split("=", 1)
    a = a.replace(" not None", "").strip()
    a = re.sub(r"\[[^\]]*\]", " ", a)           # memoryview brackets
    name = a.split()[-1].lstrip("*")
    return name + ("=" + default.strip() if default is not None else "")


def _header(indent, name, rest):
    """rest = text after the opening parenthesis up to and including the closing '):' (possibly with a body after it)"""
    depth, i = 1, 0
    while i < len(rest) and depth:
        depth += rest[i] in "([{"
        depth -= rest[i] in ")]}"
        i += 1
    if depth:
        raise TranslateError("unterminated header of %s" % name)
    args, tail = rest[:i - 1], rest[i:]
    return "%sdef %s(%s)%s" % (indent, name, ", ".join(_arg(a) for a in _split_top(args) if a.strip()), tail)


def translate(src):
    lines = src.split("\n")
    # join multi-line function headers and multi-line parenthesised statements that start with cdef/def
    joined, buf = [], None
    for ln in lines:
        if buf is not None:
            buf += " " + ln.strip()
            if buf.count("(") - buf.count(")") <= 0:
                joined.append(buf)
                buf = None
            continue
        s = ln.strip()
        if re.match(r"^(cdef|cpdef|def)\s", s) and "(" in s and s.count("(") - s.count(")") > 0 and not s.startswith("#"):
            buf = ln.rstrip()
            continue
        joined.append(ln)
    if buf is not None:
        raise TranslateError("unterminated statement: %s" % buf[:80])
    out = []
    in_doc = False
    in_class = False
    for ln in joined:
        raw = ln
        st = ln.strip()
        if in_doc:
            out.append(ln)
            if '"""' in st:
                in_doc = False
            continue
        if st.startswith('"""') and st.count('"""') == 1:
            in_doc = True
            out.append(ln)
            continue
        if st.startswith("#") or not st:
            out.append(ln)
            continue
        code, _, comment = ln.partition("#") if '"' not in ln and "'" not in ln else (ln, "", "")
        ln = code.rstrip()
        indent = re.match(r"^\s*", ln).group(0)
        if re.match(r"^\s*(from\s+libc|cimport\s|from\s+\S+\s+cimport\s|@cython\.|import\s+cython\b)", ln):
            out.append(indent + "pass")
            continue
        m = re.match(r"^(\s*)cdef\s+class\s+(\w+)\s*:", ln)
        if m:
            out.append("%sclass %s:" % (m.group(1), m.group(2)))
            in_class = True
            continue
        if ln and not ln[0].isspace():
            in_class = False
        ln = CAST.sub("", ln)
        ln = re.sub(r"malloc\((.*)\*\s*sizeof\(\s*(?:signed\s+|unsigned\s+)?\w+\s*\)\s*\)", r"([0] * (\1))", ln)
        ln = re.sub(r"\bfree\(([^()]*)\)", "None", ln)
        ln = re.sub(r"\bis\s+not\s+NULL\b", "is not None", ln)
        ln = re.sub(r"\bis\s+NULL\b", "is None", ln)
        ln = re.sub(r"\bNULL\b", "None", ln)
        m = FUNC.match(ln)
        if m and re.match(r"^\s*(cdef|cpdef|def)\s", ln) and not re.match(r"^\s*cdef\s+class", ln):
            name = m.group(2)
            hdr = _header(m.group(1), "_cinit" if name == "__cinit__" else name, m.group(3))
            out.append(hdr)
            continue
        m = DECL.match(ln)
        if m:
            rest = m.group(3).strip()
            if "=" not in rest:
                if in_class and len(m.group(1)) == 4:
                    # attribute declaration of a cdef class: C zero-initialises the struct
                    zero = "None" if (m.group(2) or "").startswith("*") or re.match(r"^\s*cdef\s+(Cell|LutProvider|Lut)\b", ln) else "0"
                    out.append(m.group(1) + "; ".join("%s = %s" % (nm.strip().lstrip("*"), zero) for nm in rest.split(",") if nm.strip()))
                else:
                    out.append(m.group(1) + "pass")
            else:
                parts = [p.strip() for p in _split_top(rest)]
                if all("=" in p for p in parts):
                    out.append(m.group(1) + "; ".join(parts))
                else:
                    # e.g. "a, b = x, y" after a type
                    out.append(m.group(1) + rest)
            continue
        if re.match(r"^\s*cdef\s", ln):
            raise TranslateError("untranslated cdef line: %s" % raw.strip()[:100])
        out.append(ln)
    text = "\n".join(out)
    # __cinit__ runs before __init__
    res = []
    lines = text.split("\n")
    cls_has_cinit = {}
    cur = None
    for ln in lines:
        m = re.match(r"^class\s+(\w+)", ln)
        if m:
            cur = m.group(1)
        if cur and re.match(r"^\s+def _cinit\(", ln):
            cls_has_cinit[cur] = True
    cur = None
    for ln in lines:
        m = re.match(r"^class\s+(\w+)", ln)
        if m:
            cur = m.group(1)
        res.append(ln)
        m = re.match(r"^(\s+)def __init__\(.*\):\s*$", ln)
        if m and cur and cls_has_cinit.get(cur):
            res.append(m.group(1) + "    self._cinit()")
    return "\n".join(res)


def load(path="/repo/src/chmpy/mc/_mc_lewiner.pyx", name="_mc_lewiner__mc2py"):
    src = open(path).read()
    py = translate(src)
    mod = types.ModuleType(name)
    mod.__file__ = path
    import numpy as np
    mod.np = np
    code = compile(py, path + " (mc2py)", "exec")
    exec(code, mod.__dict__)
    mod.__translated_source__ = py
    # C: the table values are signed char promoted to int on every read -> hand Lut an int64 array
    if hasattr(mod, "Lut"):
        orig_init = mod.Lut.__init__

        def lut_init(self, array, _orig=orig_init):
            _orig(self, np.asarray(array, dtype=np.int64))
        mod.Lut.__init__ = lut_init
    return mod
