"""Symbolic complex numbers (pairs of symx reals / exact polynomials) and exact multivariate polynomials whose
coefficients are closed z3 terms over algebraic numbers."""
from fractions import Fraction

import numpy as np
import z3

from . import symx
from .symx import Sym


class Poly:
    """multivariate polynomial {monomial: coefficient} whose coefficients are closed z3 terms over algebraic
    numbers (rationals and square roots); used to expand the P invariants exactly"""
    __slots__ = ("d",)

    def __init__(self, d=None):
        self.d = d or {}

    @staticmethod
    def var(name):
        return Poly({((name, 1),): z3.RealVal(1)})

    @staticmethod
    def const(c):
        if isinstance(c, Poly):
            return c
        if isinstance(c, Sym):
            t = z3.simplify(c.real())
        else:
            t = z3.RealVal(symx._nice_fraction(float(c)) if isinstance(c, (float, np.floating)) else Fraction(c))
        return Poly({(): t})

    def __add__(self, o):
        o = Poly.const(o)
        d = dict(self.d)
        for k, v in o.d.items():
            d[k] = z3.simplify(d[k] + v) if k in d else v
        return Poly(d)
    __radd__ = __add__

    def __neg__(self):
        return Poly({k: z3.simplify(-v) for k, v in self.d.items()})

    def __sub__(self, o):
        return self + (-Poly.const(o))

    def __rsub__(self, o):
        return Poly.const(o) - self

    def __mul__(self, o):
        if isinstance(o, np.ndarray):
            return NotImplemented
        o = Poly.const(o)
        d = {}
        for k1, v1 in self.d.items():
            for k2, v2 in o.d.items():
                mono = {}
                for n_, e_ in k1 + k2:
                    mono[n_] = mono.get(n_, 0) + e_
                k = tuple(sorted(mono.items()))
                v = z3.simplify(v1 * v2)
                d[k] = z3.simplify(d[k] + v) if k in d else v
        return Poly(d)
    __rmul__ = __mul__

    def __truediv__(self, o):
        return self * Sym(1 / Poly.const(o).d[()])


class SymC:
    """symbolic complex number (pair of symx reals or exact polynomials)"""
    __slots__ = ("re", "im")

    def __init__(self, re, im=0):
        self.re = re if isinstance(re, (Sym, Poly)) else Sym._lift(re)
        self.im = im if isinstance(im, (Sym, Poly)) else Sym._lift(im)

    @staticmethod
    def lift(o):
        if isinstance(o, SymC):
            return o
        if isinstance(o, complex):
            return SymC(float(o.real), float(o.imag))
        if isinstance(o, (Sym, Poly, int, float, Fraction, np.integer, np.floating)):
            return SymC(o, 0)
        return None

    def __add__(self, o):
        o = SymC.lift(o)
        return NotImplemented if o is None else SymC(self.re + o.re, self.im + o.im)
    __radd__ = __add__

    def __sub__(self, o):
        o = SymC.lift(o)
        return NotImplemented if o is None else SymC(self.re - o.re, self.im - o.im)

    def __rsub__(self, o):
        o = SymC.lift(o)
        return NotImplemented if o is None else o - self

    def __mul__(self, o):
        if isinstance(o, np.ndarray):
            return NotImplemented
        o = SymC.lift(o)
        return NotImplemented if o is None else SymC(self.re * o.re - self.im * o.im, self.re * o.im + self.im * o.re)
    __rmul__ = __mul__

    def __truediv__(self, o):
        if isinstance(o, (int, float, Fraction, Sym)):
            return SymC(self.re / o, self.im / o)
        return NotImplemented

    def __neg__(self):
        return SymC(-self.re, -self.im)

    def conjugate(self):
        return SymC(self.re, -self.im)
    conj = conjugate

    @property
    def real(self):
        return self.re

    @property
    def imag(self):
        return self.im

    def __abs__(self):
        return (self.re * self.re + self.im * self.im).sqrt()

    def __pow__(self, n):
        r = SymC(1, 0)
        for _ in range(int(n)):
            r = r * self
        return r


symx.register_symtype(SymC)


def coeffs(n, tag="c", poly=False):
    a = np.empty(n, dtype=object)
    for k in range(n):
        if poly:
            a[k] = SymC(Poly.var("%sr%d" % (tag, k)), Poly.var("%si%d" % (tag, k)))
        else:
            a[k] = SymC(Sym(z3.Real("%sr%d" % (tag, k))), Sym(z3.Real("%si%d" % (tag, k))))
    return a.view(symx.OArr)




class CArr(np.ndarray):
    """object array standing in for a complex128 array: .real / .imag settable with symbolic content"""

    @property
    def real(self):
        out = np.empty(self.shape, dtype=object)
        for idx in np.ndindex(self.shape):
            out[idx] = SymC.lift(self[idx]).re
        return out.view(symx.OArr)

    @real.setter
    def real(self, v):
        v = np.broadcast_to(np.asarray(v, dtype=object), self.shape)
        for idx in np.ndindex(self.shape):
            self[idx] = SymC(v[idx], SymC.lift(self[idx]).im)

    @property
    def imag(self):
        out = np.empty(self.shape, dtype=object)
        for idx in np.ndindex(self.shape):
            out[idx] = SymC.lift(self[idx]).im
        return out.view(symx.OArr)

    @imag.setter
    def imag(self, v):
        v = np.broadcast_to(np.asarray(v, dtype=object), self.shape)
        for idx in np.ndindex(self.shape):
            self[idx] = SymC(SymC.lift(self[idx]).re, v[idx])


def complex_empty(shape):
    a = np.empty(shape, dtype=object)
    for idx in np.ndindex(a.shape):
        a[idx] = SymC(0, 0)
    return a.view(CArr)
