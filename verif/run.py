"""python -m verif.run <ID> [--tier quick|thorough] | --replay <file>"""
import argparse
import importlib
import json
import os
import sys
import traceback

from .core import Ctx, EXIT_HARNESS


def main():
    if os.environ.get("VERIF_TRACE"):
        import faulthandler
        faulthandler.dump_traceback_later(int(os.environ["VERIF_TRACE"]), repeat=True)
    ap = argparse.ArgumentParser()
    ap.add_argument("pid", nargs="?")
    ap.add_argument("--tier", default=os.environ.get("VERIF_TIER", "quick"))
    ap.add_argument("--replay")
    a = ap.parse_args()
    if a.replay:
        d = json.load(open(a.replay))
        mod = importlib.import_module("verif.props." + d["property"].lower())
        ok, detail = mod.REPLAY[d["key"].split(":")[0]](d["data"])
        print("replay %s: %s -- %s" % (a.replay, "REPRODUCED" if ok else "not reproduced", detail))
        sys.exit(1 if ok else 0)
    tier = a.tier if a.tier in ("quick", "thorough") else "quick"
    seed = int(os.environ.get("VERIF_SEED", "0") or 0)
    ctx = Ctx(a.pid, tier, seed)
    try:
        mod = importlib.import_module("verif.props." + a.pid.lower())
        mod.run(ctx)
    except BaseException as e:  # noqa
        if isinstance(e, KeyboardInterrupt):
            raise
        traceback.print_exc()
        ctx.harness_error("uncaught %s: %s" % (type(e).__name__, e))
    sys.exit(ctx.finish())


if __name__ == "__main__":
    main()
