"""symx -- a small concolic executor for chmpy's numeric Python.

Real chmpy functions are executed on symbolic scalars (operator overloading) with
the module-level names ``np``/``close``/``zeros``/... rebound to sym-aware shims.
Branches on symbolic conditions fork (DFS by re-execution with a decision prefix);
an SMT solver (z3 5.x) prunes infeasible branches and decides the assertions.

Semantics: mathematical reals stand in for IEEE doubles (DESIGN section 7).
"""
from __future__ import annotations

import ast
import importlib
import math
import sys
import time
import types
from fractions import Fraction

import numpy as _np
import z3


class SymUnsupported(Exception):
    """A shim was asked for something it does not model: harness error, not a verdict."""


class PathLimit(Exception):
    pass


class _Abort(BaseException):
    """Raised to abandon an infeasible path."""


# ----------------------------------------------------------------------------------
# explorer (one active at a time)
# ----------------------------------------------------------------------------------
_EX = None


def active():
    return _EX is not None


def _nice_fraction(x: float) -> Fraction:
    """A float literal as the rational the programmer meant (1/3, 2/3, 0.5, ...), when
    a denominator <= 1000 reproduces it to 1e-15 relative; else its exact value."""
    if x != x or x in (float("inf"), float("-inf")):
        raise SymUnsupported("non-finite float %r" % x)
    f = Fraction(x)
    g = f.limit_denominator(1000)
    if abs(float(g) - x) <= 1e-15 * max(1.0, abs(x)):
        return g
    return Fraction(repr(float(x)))  # shortest decimal that round-trips (1e-06 -> 1/10**6)


def z3real(x):
    if isinstance(x, Sym):
        return x.real()
    if isinstance(x, (bool, _np.bool_)):
        return z3.RealVal(int(x))
    if isinstance(x, (int, _np.integer)):
        return z3.RealVal(int(x))
    if isinstance(x, (float, _np.floating)):
        return z3.RealVal(_nice_fraction(float(x)))
    if isinstance(x, Fraction):
        return z3.RealVal(x)
    raise SymUnsupported("cannot lift %r (%s)" % (x, type(x)))


def _is_num(x):
    return isinstance(x, (int, float, Fraction, _np.integer, _np.floating, bool, _np.bool_))


class Sym:
    """Symbolic scalar (z3 Real or Int term)."""

    __slots__ = ("t", "info", "intlike")

    def __init__(self, t, info=None, intlike=False):
        self.t = t
        self.info = info
        self.intlike = intlike

    # -- helpers
    @property
    def is_int(self):
        return self.t.sort().kind() == z3.Z3_INT_SORT

    def real(self):
        return z3.ToReal(self.t) if self.is_int else self.t

    @staticmethod
    def _lift(o):
        if isinstance(o, Sym):
            return o
        if isinstance(o, (bool, _np.bool_, int, _np.integer)):
            return Sym(z3.IntVal(int(o)))
        if isinstance(o, (float, _np.floating)):
            return Sym(z3.RealVal(_nice_fraction(float(o))))
        if isinstance(o, Fraction):
            return Sym(z3.RealVal(o))
        return None

    def _bin(self, o, fn, rfn=None, swap=False):
        if isinstance(o, _np.ndarray):
            return NotImplemented
        b = Sym._lift(o)
        if b is None:
            if isinstance(o, SymAngle):
                raise SymUnsupported("arithmetic on a symbolic angle")
            return NotImplemented
        a = self
        if swap:
            a, b = b, a
        if a.is_int and b.is_int:
            return Sym(z3.simplify(fn(a.t, b.t)))
        return Sym(z3.simplify(fn(a.real(), b.real())))

    def _cplx(self, o, op):
        from .symc import SymC
        a, b = SymC(self, 0), SymC(float(o.real), float(o.imag))
        return {"add": a + b, "sub": a - b, "rsub": b - a, "mul": a * b}[op]

    def __add__(self, o): return self._cplx(o, "add") if isinstance(o, complex) else self._bin(o, lambda a, b: a + b)
    def __radd__(self, o): return self._cplx(o, "add") if isinstance(o, complex) else self._bin(o, lambda a, b: a + b, swap=True)
    def __sub__(self, o): return self._cplx(o, "sub") if isinstance(o, complex) else self._bin(o, lambda a, b: a - b)
    def __rsub__(self, o): return self._cplx(o, "rsub") if isinstance(o, complex) else self._bin(o, lambda a, b: a - b, swap=True)
    def __mul__(self, o): return self._cplx(o, "mul") if isinstance(o, complex) else self._bin(o, lambda a, b: a * b)
    def __rmul__(self, o): return self._cplx(o, "mul") if isinstance(o, complex) else self._bin(o, lambda a, b: a * b, swap=True)

    def __truediv__(self, o):
        if isinstance(o, _np.ndarray):
            return NotImplemented
        b = Sym._lift(o)
        if b is None:
            return NotImplemented
        return Sym(z3.simplify(self.real() / b.real()))

    def __rtruediv__(self, o):
        b = Sym._lift(o)
        if b is None:
            return NotImplemented
        return Sym(z3.simplify(b.real() / self.real()))

    def __floordiv__(self, o):
        b = Sym._lift(o)
        if b is None:
            return NotImplemented
        if self.is_int and b.is_int:
            return Sym(_pydiv(self.t, b.t))
        return Sym(z3.ToReal(z3.ToInt(self.real() / b.real())))

    def __rfloordiv__(self, o):
        b = Sym._lift(o)
        if b is None:
            return NotImplemented
        return b.__floordiv__(self)

    def __mod__(self, o):
        if isinstance(o, _np.ndarray):
            return NotImplemented
        b = Sym._lift(o)
        if b is None:
            return NotImplemented
        if self.is_int and b.is_int:
            return Sym(_pymod(self.t, b.t))
        # real modulo, python semantics for positive constant divisor
        q = z3.ToInt(self.real() / b.real())
        return Sym(self.real() - b.real() * z3.ToReal(q))

    def __rmod__(self, o):
        b = Sym._lift(o)
        if b is None:
            return NotImplemented
        return b.__mod__(self)

    def __neg__(self): return Sym(z3.simplify(-self.t))
    def __pos__(self): return self

    def __abs__(self):
        return Sym(z3.If(self.t >= 0, self.t, -self.t))

    def __pow__(self, n):
        if isinstance(n, Sym):
            raise SymUnsupported("symbolic exponent")
        if isinstance(n, (int, _np.integer)) or (isinstance(n, float) and n == int(n)):
            n = int(n)
            if n < 0:
                return 1 / (self ** (-n))
            r = Sym(z3.IntVal(1)) if self.is_int else Sym(z3.RealVal(1))
            for _ in range(n):
                r = r * self
            return r
        if n == 0.5:
            return self.sqrt()
        raise SymUnsupported("power %r" % (n,))

    # -- comparisons
    def _cmp(self, o, fn):
        if isinstance(o, _np.ndarray):
            return NotImplemented
        b = Sym._lift(o)
        if b is None:
            return NotImplemented
        if self.info is not None and self.info[0] == "sqrt" and _is_num(o) and float(o) >= 0:
            # w = sqrt(e) (w >= 0, w*w = e) against a non-negative constant c:  w ~ c  <=>  e ~ c*c
            c = _nice_fraction(float(o)) if isinstance(o, (float, _np.floating)) else Fraction(int(o))
            return SymBool(fn(self.info[1].real(), z3.RealVal(c * c)))
        if self.is_int and b.is_int:
            return SymBool(fn(self.t, b.t))
        return SymBool(fn(self.real(), b.real()))

    def __lt__(self, o): return self._cmp(o, lambda a, b: a < b)
    def __le__(self, o): return self._cmp(o, lambda a, b: a <= b)
    def __gt__(self, o): return self._cmp(o, lambda a, b: a > b)
    def __ge__(self, o): return self._cmp(o, lambda a, b: a >= b)
    def __eq__(self, o): return self._cmp(o, lambda a, b: a == b)
    def __ne__(self, o): return self._cmp(o, lambda a, b: a != b)
    __hash__ = None

    # -- conversions
    def __float__(self):
        raise SymUnsupported("float() of a symbolic value")

    def __int__(self):
        return self.__index__()

    def __index__(self):
        if _EX is None:
            raise SymUnsupported("index of symbolic value outside exploration")
        return _EX.concretize_int(self)

    def __bool__(self):
        return bool(self != 0)

    def __round__(self, n=None):
        if n not in (None, 0):
            raise SymUnsupported("round to digits")
        return self.rint()

    def __floor__(self):
        return self.floor()

    def __ceil__(self):
        return self.ceil()

    def __trunc__(self):
        return self.trunc()

    def __repr__(self):
        return "Sym(%s)" % (self.t,)

    # -- numpy object-loop methods
    def sqrt(self):
        if _EX is None:
            raise SymUnsupported("sqrt outside exploration")
        return _EX.fresh_sqrt(self)

    def conjugate(self): return self
    def conj(self): return self

    def floor(self):
        if self.is_int or self.intlike:
            return self
        if _EX is not None and _EX.fresh_rounding:
            return _EX.fresh_round("floor", self)
        return Sym(z3.ToInt(self.t), info=("floor", self))

    def ceil(self):
        if self.is_int or self.intlike:
            return self
        if _EX is not None and _EX.fresh_rounding:
            return _EX.fresh_round("ceil", self)
        return Sym(-z3.ToInt(-self.t), info=("ceil", self))

    def rint(self):
        # round half to even is not modelled; half-integers are excluded by callers
        if self.is_int:
            return self
        return Sym(z3.ToInt(self.t + z3.RealVal(Fraction(1, 2))), info=("rint", self))

    def trunc(self):
        if self.is_int:
            return self
        return Sym(z3.If(self.t >= 0, z3.ToInt(self.t), -z3.ToInt(-self.t)))

    def cos(self):
        raise SymUnsupported("cos of a raw symbolic real; use SymAngle")

    def sin(self):
        raise SymUnsupported("sin of a raw symbolic real; use SymAngle")


def _pydiv(a, b):
    """Python floor division on z3 Ints (z3 div is Euclidean: equal for b>0)."""
    if z3.is_int_value(b) and b.as_long() > 0:
        return a / b
    raise SymUnsupported("floor division by non-positive/symbolic integer")


def _pymod(a, b):
    if z3.is_int_value(b) and b.as_long() > 0:
        return a % b
    raise SymUnsupported("modulo by non-positive/symbolic integer")


class SymBool:
    __slots__ = ("t",)

    def __init__(self, t):
        self.t = t

    def __bool__(self):
        t = z3.simplify(self.t)
        if z3.is_true(t):
            return True
        if z3.is_false(t):
            return False
        if _EX is None:
            raise SymUnsupported("branch on symbolic condition outside exploration")
        return _EX.decide(t)

    def __and__(self, o):
        o = o.t if isinstance(o, SymBool) else z3.BoolVal(bool(o))
        return SymBool(z3.And(self.t, o))

    __rand__ = __and__

    def __or__(self, o):
        o = o.t if isinstance(o, SymBool) else z3.BoolVal(bool(o))
        return SymBool(z3.Or(self.t, o))

    __ror__ = __or__

    def __invert__(self):
        return SymBool(z3.Not(self.t))

    def __eq__(self, o):
        o = o.t if isinstance(o, SymBool) else z3.BoolVal(bool(o))
        return SymBool(self.t == o)

    __hash__ = None

    def __repr__(self):
        return "SymBool(%s)" % (self.t,)


class SymAngle:
    """An angle known only through (cos, sin) with cos^2+sin^2=1.  unit: 'rad'|'deg'."""

    __slots__ = ("c", "s", "unit", "name")

    def __init__(self, c, s, unit="rad", name=None):
        self.c, self.s, self.unit, self.name = c, s, unit, name

    def cos(self):
        return self.c

    def sin(self):
        return self.s

    def __neg__(self):
        return SymAngle(self.c, -self.s, self.unit)

    def __abs__(self):
        # cell angles are in (0, pi): sin > 0
        return self

    def __float__(self):
        raise SymUnsupported("float() of a symbolic angle")

    # a cell angle lies in (0, pi) radians / (0, 180) degrees: comparisons with constants
    # outside that interval are decided, anything else is not modelled
    def _hi(self):
        return math.pi if self.unit == "rad" else 180.0

    def __gt__(self, o):
        if _is_num(o) and float(o) >= self._hi() - 1e-12:
            return False
        if _is_num(o) and float(o) <= 0:
            return True
        raise SymUnsupported("comparison of symbolic angle with %r" % (o,))

    def __lt__(self, o):
        if _is_num(o) and float(o) >= self._hi() - 1e-12:
            return True
        if _is_num(o) and float(o) <= 0:
            return False
        raise SymUnsupported("comparison of symbolic angle with %r" % (o,))

    __ge__ = __gt__
    __le__ = __lt__

    def __repr__(self):
        return "SymAngle(%s,%s,%s)" % (self.c, self.s, self.unit)


# ----------------------------------------------------------------------------------
# Explorer
# ----------------------------------------------------------------------------------
class Path:
    def __init__(self, pc, decisions, value=None, exc=None):
        self.pc = pc
        self.decisions = decisions
        self.value = value
        self.exc = exc


class Explorer:
    """DFS over feasible branch decisions of ``fn`` by re-execution."""

    def __init__(self, assumptions=(), branch_timeout_ms=3000, max_paths=2000, int_fork_bound=64):
        self.base = list(assumptions)
        self.branch_timeout_ms = branch_timeout_ms
        self.max_paths = max_paths
        self.int_fork_bound = int_fork_bound
        self.defs = {}  # symbol name -> list of defining axioms
        self._n = 0
        self.stats = dict(paths=0, pruned=0, unknown_branches=0, solver_s=0.0, branch_queries=0)
        self._fresh_cache = {}
        self.fresh_rounding = False   # floor/ceil as fresh real symbols with sliceable IsInt axiom
        self.rounding = {}            # name -> (kind, argument term)
        self.drop_isint = False

    def fresh_round(self, kind, x: Sym):
        key = (kind, x.t.sexpr())
        if key in self._fresh_cache:
            return self._fresh_cache[key]
        c, name = self.fresh(kind)
        c.intlike = True
        c.info = (kind, x)
        xr = x.real()
        if kind == "floor":
            self.defs[name] = [c.t <= xr, c.t > xr - 1, z3.IsInt(c.t)]
        else:
            self.defs[name] = [c.t >= xr, c.t < xr + 1, z3.IsInt(c.t)]
        self.rounding[name] = (kind, xr)
        self._fresh_cache[key] = c
        return c

    # ---- fresh symbols
    def fresh(self, prefix, sort="real"):
        self._n += 1
        name = "%s!%d" % (prefix, self._n)
        return Sym(z3.Real(name) if sort == "real" else z3.Int(name)), name

    def fresh_sqrt(self, e: Sym):
        key = ("sqrt", e.t.sexpr())
        if key in self._fresh_cache:
            return self._fresh_cache[key]
        et = z3.simplify(e.real())
        if z3.is_rational_value(et):
            fr = Fraction(et.numerator_as_long(), et.denominator_as_long())
            if fr >= 0:
                n, d = math.isqrt(fr.numerator), math.isqrt(fr.denominator)
                if n * n == fr.numerator and d * d == fr.denominator:
                    r = Sym(z3.RealVal(Fraction(n, d)))
                    self._fresh_cache[key] = r
                    return r
        w, name = self.fresh("sqrt")
        w.info = ("sqrt", Sym(et))
        self.defs[name] = [w.t >= 0, w.t * w.t == et]
        self._fresh_cache[key] = w
        return w

    def add_def(self, name, axioms):
        self.defs[name] = list(axioms)

    # ---- cone of influence
    def cone(self, formulas):
        seen = set()
        todo = []
        for f in formulas:
            todo.extend(_free_vars(f))
        axioms = []
        while todo:
            v = todo.pop()
            if v in seen:
                continue
            seen.add(v)
            for ax in self.defs.get(v, ()):
                if self.drop_isint and z3.is_app(ax) and ax.decl().kind() == z3.Z3_OP_IS_INT:
                    continue
                axioms.append(ax)
                todo.extend(_free_vars(ax))
        return axioms

    # ---- solver access
    def check(self, formulas, timeout_ms=None):
        s = z3.Solver()
        s.set("timeout", int(timeout_ms or self.branch_timeout_ms))
        fs = list(formulas)
        for f in fs:
            s.add(f)
        for ax in self.cone(fs):
            s.add(ax)
        t0 = time.time()
        r = s.check()
        self.stats["solver_s"] += time.time() - t0
        return str(r), s

    # ---- exploration
    def decide(self, t):
        if self._pos < len(self._prefix):
            d = self._prefix[self._pos]
            self._pos += 1
            self._pc.append(t if d else z3.Not(t))
            self._decisions.append(d)
            return d
        self.stats["branch_queries"] += 2
        rt, _ = self.check(self._pc + [t])
        rf, _ = self.check(self._pc + [z3.Not(t)])
        if rt == "unknown" or rf == "unknown":
            self.stats["unknown_branches"] += 1
        ok_t, ok_f = rt != "unsat", rf != "unsat"
        if not ok_t and not ok_f:
            raise _Abort()
        if ok_t and ok_f:
            self._stack.append(self._decisions + [False])
            d = True
        else:
            self.stats["pruned"] += 1
            d = ok_t
        self._pos += 1
        self._decisions.append(d)
        self._pc.append(t if d else z3.Not(t))
        return d

    def concretize_int(self, v: Sym):
        """Fork over the feasible integer values of v (bounded)."""
        t = z3.simplify(v.t)
        if z3.is_int_value(t):
            return t.as_long()
        if z3.is_rational_value(t) and t.denominator_as_long() == 1:
            return t.numerator_as_long()
        if not (v.is_int or v.intlike):
            raise SymUnsupported("index from non-integer term %s" % t)
        # replay from prefix: decisions for ints are stored as ('int', value)
        if self._pos < len(self._prefix):
            d = self._prefix[self._pos]
            assert isinstance(d, tuple) and d[0] == "int", d
            self._pos += 1
            self._decisions.append(d)
            self._pc.append(t == d[1])
            return d[1]
        vals = []
        s = z3.Solver()
        s.set("timeout", int(self.branch_timeout_ms))
        fs = self._pc
        for f in fs:
            s.add(f)
        for ax in self.cone(fs + [t == 0]):
            s.add(ax)
        while len(vals) <= self.int_fork_bound:
            r = s.check()
            if str(r) != "sat":
                if str(r) == "unknown":
                    self.stats["unknown_branches"] += 1
                break
            mv = s.model().eval(t, model_completion=True)
            val = mv.as_long() if z3.is_int_value(mv) else int(model_value(s.model(), t))
            vals.append(val)
            s.add(t != val)
        else:
            raise PathLimit("more than %d feasible values for %s" % (self.int_fork_bound, t))
        if not vals:
            raise _Abort()
        vals.sort()
        for other in vals[1:]:
            self._stack.append(self._decisions + [("int", other)])
        d = ("int", vals[0])
        self._pos += 1
        self._decisions.append(d)
        self._pc.append(t == vals[0])
        return vals[0]

    class _Post:
        def __init__(self, ex, pc):
            self.ex, self.pc = ex, pc

        def __enter__(self):
            global _EX
            if _EX is not None:
                raise RuntimeError("nested exploration")
            ex = self.ex
            ex._prefix, ex._pos, ex._pc, ex._decisions, ex._stack = [], 0, list(self.pc), [], []
            ex._post = True
            _EX = ex
            return ex

        def __exit__(self, *a):
            global _EX
            _EX = None
            self.ex._post = False
            if self.ex._stack:
                self.ex._stack = []
                if a[0] is None:
                    raise SymUnsupported("undetermined branch while post-processing a path")
            return False

    def post(self, pc):
        """Re-enter symbolic mode on a finished path (fresh sqrt symbols etc. allowed;
        a branch must be determined by the path condition)."""
        return Explorer._Post(self, pc)

    def choose(self, v, values):
        """Blind fork of an Int-sorted value over a given finite list (no feasibility
        queries; an infeasible choice only yields a path whose condition is unsatisfiable)."""
        t = v.t
        if self._pos < len(self._prefix):
            d = self._prefix[self._pos]
            assert isinstance(d, tuple) and d[0] == "int", d
        else:
            for other in values[1:]:
                self._stack.append(self._decisions + [("int", other)])
            d = ("int", values[0])
        self._pos += 1
        self._decisions.append(d)
        self._pc.append(t == d[1])
        return d[1]

    def assume(self, cond):
        """Add an assumption on the current path (abort path if infeasible)."""
        t = cond.t if isinstance(cond, SymBool) else cond
        self._pc.append(t)

    @property
    def pc(self):
        return list(self._pc)

    def run(self, fn, catch=(Exception,)):
        global _EX
        if _EX is not None:
            raise RuntimeError("nested exploration")
        paths = []
        self._stack = [[]]
        _EX = self
        try:
            while self._stack:
                if len(paths) >= self.max_paths:
                    raise PathLimit("more than %d paths" % self.max_paths)
                self._prefix = self._stack.pop()
                self._pos = 0
                self._pc = list(self.base)
                self._decisions = []
                try:
                    v = fn()
                    paths.append(Path(list(self._pc), list(self._decisions), value=v))
                except _Abort:
                    self.stats["pruned"] += 1
                    continue
                except (SymUnsupported, PathLimit):
                    raise
                except catch as e:  # exception raised by code under test
                    paths.append(Path(list(self._pc), list(self._decisions), exc=e))
                self.stats["paths"] += 1
        finally:
            _EX = None
        return paths


_FV_CACHE = {}


def _free_vars(f):
    i0 = f.get_id()
    hit = _FV_CACHE.get(i0)
    if hit is not None and hit[0].eq(f):
        return hit[1]
    out = _free_vars_uncached(f)
    if len(_FV_CACHE) > 200000:
        _FV_CACHE.clear()
    _FV_CACHE[i0] = (f, out)     # the term is kept alive, so its id stays unique
    return out


def _free_vars_uncached(f):
    out = set()
    seen = set()
    todo = [f]
    while todo:
        e = todo.pop()
        i = e.get_id()
        if i in seen:
            continue
        seen.add(i)
        if z3.is_const(e) and e.decl().kind() == z3.Z3_OP_UNINTERPRETED:
            out.add(e.decl().name())
        else:
            todo.extend(e.children())
    return out


# ----------------------------------------------------------------------------------
# numpy shim
# ----------------------------------------------------------------------------------
SYMTYPES = (Sym, SymAngle, SymBool)


def register_symtype(t):
    global SYMTYPES
    if t not in SYMTYPES:
        SYMTYPES = SYMTYPES + (t,)


def to_int(v):
    """C/numpy ``astype(int)`` of one scalar."""
    if isinstance(v, Sym):
        return v if (v.is_int or v.intlike) else Sym(z3.simplify(v.trunc().t))
    if hasattr(v, "to_int"):
        return v.to_int()
    return int(v)


class OArr(_np.ndarray):
    """Object array whose astype(int) keeps symbolic content symbolic."""

    def __array_wrap__(self, arr, context=None, return_scalar=False):
        # reductions of a subclass would come back as 0-d arrays: hand out the element itself
        if arr.ndim == 0:
            return arr[()]
        return arr.view(OArr)

    def astype(self, dtype, *a, **k):
        if has_sym(self) and _np.dtype(dtype).kind in "iu":
            out = _np.empty(self.shape, dtype=object)
            for idx in _np.ndindex(self.shape):
                out[idx] = to_int(self[idx])
            return out.view(OArr)
        if has_sym(self) and _np.dtype(dtype).kind in "fc":
            # symbolic values carry no machine type: a cast to a floating type keeps them (rounding of the cast is outside the model)
            return _np.array(self, dtype=object).view(OArr)
        return _np.asarray(self).astype(dtype, *a, **k)


def has_sym(x):
    if isinstance(x, SYMTYPES):
        return True
    if isinstance(x, _np.ndarray):
        if x.dtype != object:
            return False
        return any(isinstance(v, SYMTYPES) for v in x.flat)
    if isinstance(x, (list, tuple)):
        return any(has_sym(v) for v in x)
    return False


def defloat(x):
    """An object array (or list) without symbolic content -> plain float array, so the real
    numpy routine can be used on it."""
    if isinstance(x, _np.ndarray) and x.dtype == object:
        return x.astype(float)
    if isinstance(x, (list, tuple)) and any(isinstance(v, _np.ndarray) and v.dtype == object for v in x):
        return [defloat(v) for v in x]
    return x


_SPECIAL = None


def _special_angles():
    global _SPECIAL
    if _SPECIAL is None:
        _SPECIAL = {}
        for k in range(-24, 25):
            _SPECIAL[k] = math.pi * k / 12
    return _SPECIAL


def _exact_trig(x: float):
    """(cos, sin) of a concrete float angle as exact algebraic Sym values when it is a
    multiple of pi/12 ... pi/6 or pi/4 (to 1e-12); else None."""
    for k, v in _special_angles().items():
        if abs(x - v) < 1e-12:
            return _trig_k(k % 24)
    return None


def _trig_k(k):
    # cos/sin of k*pi/12 for multiples of pi/6 and pi/4
    half = Fraction(1, 2)
    table6 = {0: (1, 0), 2: ("r3h", half), 4: (half, "r3h"), 6: (0, 1), 8: (-half, "r3h"), 10: ("-r3h", half),
              12: (-1, 0), 14: ("-r3h", -half), 16: (-half, "-r3h"), 18: (0, -1), 20: (half, "-r3h"), 22: ("r3h", -half),
              3: ("r2h", "r2h"), 9: ("-r2h", "r2h"), 15: ("-r2h", "-r2h"), 21: ("r2h", "-r2h")}
    if k not in table6:
        return None

    def conv(v):
        if isinstance(v, str):
            neg = v.startswith("-")
            base = v.lstrip("-")
            n = 3 if base == "r3h" else 2
            r = Sym(z3.RealVal(n)).sqrt() / 2
            return -r if neg else r
        return Sym(z3.RealVal(Fraction(v)))

    c, s = table6[k]
    return conv(c), conv(s)


def _cos1(x):
    if isinstance(x, SymAngle):
        return x.c
    if isinstance(x, Sym):
        return x.cos()
    if active() and _is_num(x):
        e = _exact_trig(float(x))
        if e is not None:
            return e[0]
    return _np.cos(x)


def _sin1(x):
    if isinstance(x, SymAngle):
        return x.s
    if isinstance(x, Sym):
        return x.sin()
    if active() and _is_num(x):
        e = _exact_trig(float(x))
        if e is not None:
            return e[1]
    return _np.sin(x)


def _map(fn, x):
    if isinstance(x, _np.ndarray):
        out = _np.empty(x.shape, dtype=object)
        for idx in _np.ndindex(x.shape):
            out[idx] = fn(x[idx])
        return out.view(OArr)
    if isinstance(x, (list, tuple)):
        return _np.array([_map(fn, v) for v in x], dtype=object).view(OArr)
    return fn(x)


def _obj(x):
    a = _np.empty(len(x), dtype=object)
    for i, v in enumerate(x):
        a[i] = v
    return a


class _Linalg:
    def __init__(self, real):
        self._real = real

    def __getattr__(self, k):
        return getattr(self._real, k)

    def norm(self, x, ord=None, axis=None, keepdims=False):
        if not has_sym(x):
            return self._real.norm(defloat(x), ord=ord, axis=axis, keepdims=keepdims)
        x = _np.asarray(x, dtype=object)
        if ord is not None:
            raise SymUnsupported("norm ord")
        sq = x * x
        if axis is None:
            return _sqrt1(sq.sum())
        s = sq.sum(axis=axis)
        return _map(_sqrt1, s)

    def det(self, m):
        if not has_sym(m):
            return self._real.det(defloat(m))
        m = _np.asarray(m, dtype=object)
        if m.shape != (3, 3):
            raise SymUnsupported("det shape")
        return det3(m)

    def inv(self, m):
        if not has_sym(m):
            return self._real.inv(defloat(m))
        m = _np.asarray(m, dtype=object)
        if m.shape != (3, 3):
            raise SymUnsupported("inv shape")
        d = det3(m)
        adj = _np.empty((3, 3), dtype=object)
        for i in range(3):
            for j in range(3):
                r = [k for k in range(3) if k != j]
                c = [k for k in range(3) if k != i]
                minor = m[r[0], c[0]] * m[r[1], c[1]] - m[r[0], c[1]] * m[r[1], c[0]]
                adj[i, j] = minor * ((-1) ** (i + j)) / d
        return adj

    def svd(self, m, *a, **k):
        if not has_sym(m):
            return self._real.svd(defloat(m), *a, **k)
        hook = getattr(self, "_svd_hook", None)
        if hook is None:
            raise SymUnsupported("svd on symbolic matrix without contract stub")
        return hook(m)


def det3(m):
    return (m[0, 0] * (m[1, 1] * m[2, 2] - m[1, 2] * m[2, 1])
            - m[0, 1] * (m[1, 0] * m[2, 2] - m[1, 2] * m[2, 0])
            + m[0, 2] * (m[1, 0] * m[2, 1] - m[1, 1] * m[2, 0]))


def _sqrt1(x):
    if isinstance(x, Sym):
        return x.sqrt()
    return _np.sqrt(x)


def _arccos1(x):
    if isinstance(x, Sym):
        s = (1 - x * x).sqrt()
        return SymAngle(x, s, "rad")
    if active() and _is_num(x):
        # keep the cosine exactly: the angle is only ever used through cos/sin
        xs = Sym._lift(float(x))
        return SymAngle(xs, (1 - xs * xs).sqrt(), "rad")
    return _np.arccos(x)


def _degrees1(x):
    if isinstance(x, SymAngle):
        return SymAngle(x.c, x.s, "deg", x.name)
    if isinstance(x, Sym):
        raise SymUnsupported("degrees of raw symbolic real")
    return _np.degrees(x)


def _radians1(x):
    if isinstance(x, SymAngle):
        return SymAngle(x.c, x.s, "rad", x.name)
    if isinstance(x, Sym):
        raise SymUnsupported("radians of raw symbolic real")
    return _np.radians(x)


def _clip1(x, lo, hi):
    if isinstance(x, Sym):
        lo_, hi_ = z3real(lo), z3real(hi)
        return Sym(z3.If(x.real() < lo_, lo_, z3.If(x.real() > hi_, hi_, x.real())))
    return min(max(x, lo), hi)


class SymNumpy:
    """Stands in for the name ``np`` inside a module under test."""

    def __init__(self):
        self._np = _np
        self.linalg = _Linalg(_np.linalg)
        self.symbolic_arrays = True
        self.object_kinds = "fc"      # dtypes replaced by object arrays while exploring ("fcui" for machine-word kernels)

    def __getattr__(self, k):
        return getattr(_np, k)

    # elementwise
    def cos(self, x):
        return _map(_cos1, x) if (has_sym(x) or active()) else _np.cos(x)

    def sin(self, x):
        return _map(_sin1, x) if (has_sym(x) or active()) else _np.sin(x)

    def sqrt(self, x):
        return _map(_sqrt1, x) if has_sym(x) else _np.sqrt(defloat(x))

    def arccos(self, x):
        return _map(_arccos1, x) if (has_sym(x) or active()) else _np.arccos(x)

    def degrees(self, x, out=None):
        r = _map(_degrees1, x) if has_sym(x) else _np.degrees(defloat(x))
        if out is not None:
            out[...] = r
            return out
        return r

    def radians(self, x, out=None):
        r = _map(_radians1, x) if has_sym(x) else _np.radians(defloat(x))
        if out is not None:
            # numpy semantics: the result is written into `out` (which may be the argument itself) and `out` is returned
            out[...] = r
            return out
        return r

    def clip(self, x, lo, hi):
        return _map(lambda v: _clip1(v, lo, hi), x) if has_sym(x) else _np.clip(defloat(x), lo, hi)

    def abs(self, x):
        return _map(abs, x) if has_sym(x) else _np.abs(defloat(x))

    absolute = abs

    def floor(self, x):
        return _map(lambda v: v.floor() if isinstance(v, Sym) else math.floor(v), x) if has_sym(x) else _np.floor(defloat(x))

    def ceil(self, x):
        return _map(lambda v: v.ceil() if isinstance(v, Sym) else math.ceil(v), x) if has_sym(x) else _np.ceil(defloat(x))

    def round(self, x, decimals=0):
        if not has_sym(x):
            return _np.round(x, decimals)
        if decimals:
            raise SymUnsupported("round decimals")
        return _map(lambda v: v.rint() if hasattr(v, "rint") else round(v), x)

    def fmod(self, x, y):
        if not has_sym(x):
            return _np.fmod(x, y)
        # C fmod: the quotient is truncated towards zero (result has the sign of the dividend)
        def one(v):
            if not isinstance(v, Sym):
                return math.fmod(v, y)
            q = (v / y).real()
            tr = z3.If(q >= 0, z3.ToReal(z3.ToInt(q)), -z3.ToReal(z3.ToInt(-q)))
            return v - y * Sym(tr)
        return _map(one, x)

    def real(self, x):
        if hasattr(x, "re") and hasattr(x, "im"):
            return x.re
        if has_sym(x):
            return _map(lambda v: v.re if hasattr(v, "re") else v, _np.asarray(x, dtype=object))
        return _np.real(x)

    def imag(self, x):
        if hasattr(x, "re") and hasattr(x, "im"):
            return x.im
        if has_sym(x):
            return _map(lambda v: v.im if hasattr(v, "im") else 0, _np.asarray(x, dtype=object))
        return _np.imag(x)

    def cumsum(self, x, axis=None, dtype=None, **k):
        if not has_sym(x):
            return _np.cumsum(x, axis=axis, dtype=dtype, **k)
        x = _np.asarray(x, dtype=object)
        if x.ndim != 1 and axis is not None:
            raise SymUnsupported("cumsum of a symbolic array along an axis")
        x = x.ravel()
        out = _np.empty(len(x), dtype=object)
        acc = 0
        for i in range(len(x)):
            acc = acc + x[i]
            out[i] = acc
        return out.view(OArr)          # exact running totals: the requested machine type is outside the model

    def mean(self, x, axis=None, dtype=None, **k):
        if not has_sym(x):
            return _np.mean(defloat(x), axis=axis, dtype=dtype, **k)
        x = _np.asarray(x, dtype=object)
        n = x.shape[axis] if axis is not None else x.size
        out = x.sum(axis=axis) / n
        return out.view(OArr) if isinstance(out, _np.ndarray) and out.dtype == object else out

    def where(self, cond, *a):
        if not has_sym(cond):
            return _np.where(cond, *a)
        if a:
            raise SymUnsupported("three-argument where on symbolic condition")
        cond = _np.asarray(cond, dtype=object)
        if cond.ndim != 1:
            raise SymUnsupported("where on non-1D symbolic condition")
        return (_np.array([i for i in range(len(cond)) if bool(cond[i])], dtype=int),)

    def arange(self, *a, **k):
        a = [int(x) if isinstance(x, Sym) else x for x in a]
        return _np.arange(*a, **k)

    def maximum(self, a, b):
        return self._minmax(a, b, True)

    def minimum(self, a, b):
        return self._minmax(a, b, False)

    def _minmax(self, a, b, is_max):
        if not (has_sym(a) or has_sym(b)):
            return (_np.maximum if is_max else _np.minimum)(defloat(a), defloat(b))
        a = _np.asarray(a, dtype=object)
        b = _np.asarray(b, dtype=object)
        a, b = _np.broadcast_arrays(a, b)
        out = _np.empty(a.shape, dtype=object)
        for idx in _np.ndindex(a.shape):
            x, y = a[idx], b[idx]
            inf = float("inf")
            if _is_num(x) and abs(float(x)) == inf:
                out[idx] = y if (float(x) < 0) == is_max else x
            elif _is_num(y) and abs(float(y)) == inf:
                out[idx] = x if (float(y) < 0) == is_max else y
            elif isinstance(x, Sym) or isinstance(y, Sym):
                xs, ys = Sym._lift(x), Sym._lift(y)
                both_int = (xs.is_int or xs.intlike or _is_num(x) and float(x) == int(x)) and (ys.is_int or ys.intlike or _is_num(y) and float(y) == int(y))
                xr, yr = xs.real() if not (xs.is_int and ys.is_int) else xs.t, ys.real() if not (xs.is_int and ys.is_int) else ys.t
                out[idx] = Sym(z3.If(xr >= yr, xr, yr) if is_max else z3.If(xr <= yr, xr, yr), intlike=bool(both_int))
            else:
                out[idx] = max(x, y) if is_max else min(x, y)
        return out.view(OArr)

    def vdot(self, a, b):
        if not (has_sym(a) or has_sym(b)):
            return _np.vdot(defloat(a), defloat(b))
        a = _np.asarray(a, dtype=object).ravel()
        b = _np.asarray(b, dtype=object).ravel()
        r = 0
        for x, y in zip(a, b):
            r = r + x * y
        return r

    def any(self, x, *a, **k):
        if not has_sym(x):
            return _np.any(x, *a, **k)
        r = SymBool(z3.BoolVal(False))
        for v in _np.asarray(x, dtype=object).flat:
            r = r | (v if isinstance(v, SymBool) else SymBool(z3.BoolVal(bool(v))))
        return r

    def all(self, x, *a, **k):
        if not has_sym(x):
            return _np.all(x, *a, **k)
        r = SymBool(z3.BoolVal(True))
        for v in _np.asarray(x, dtype=object).flat:
            r = r & (v if isinstance(v, SymBool) else SymBool(z3.BoolVal(bool(v))))
        return r

    # constructors: object arrays while exploring, so symbolic values can be stored
    def zeros(self, shape, dtype=None, **k):
        if active() and self.symbolic_arrays and (dtype is None or _np.dtype(dtype).kind in self.object_kinds):
            a = _np.empty(shape, dtype=object)
            a.fill(0.0)
            return a
        return _np.zeros(shape, dtype=dtype, **k) if dtype is not None else _np.zeros(shape, **k)

    def empty(self, shape, dtype=None, **k):
        if active() and self.symbolic_arrays and dtype is not None and _np.dtype(dtype).kind == "c" and "c" in self.object_kinds:
            from .symc import complex_empty
            return complex_empty(shape)
        if active() and self.symbolic_arrays and (dtype is None or _np.dtype(dtype).kind in self.object_kinds):
            a = _np.empty(shape, dtype=object)
            a.fill(0.0)
            return a
        return _np.empty(shape, dtype=dtype, **k) if dtype is not None else _np.empty(shape, **k)

    def eye(self, n, *a, dtype=None, **k):
        e = _np.eye(n, *a, **k)
        if active() and self.symbolic_arrays and (dtype is None or _np.dtype(dtype).kind == "f"):
            return e.astype(object)
        return e if dtype is None else e.astype(dtype)

    def array(self, x, *a, **k):
        if has_sym(x):
            k.pop("dtype", None)
            return _np.array(x, dtype=object).view(OArr)
        return _np.array(x, *a, **k)

    def asarray(self, x, *a, **k):
        if has_sym(x):
            return _np.asarray(x, dtype=object)
        return _np.asarray(x, *a, **k)

    def hstack(self, xs):
        return _np.hstack([_np.asarray(x, dtype=object) if has_sym(x) else x for x in xs])

    def allclose(self, a, b, rtol=1e-5, atol=1e-8):
        return sym_allclose(a, b, rtol, atol)

    def isclose(self, a, b, rtol=1e-5, atol=1e-8, **k):
        if not (has_sym(a) or has_sym(b)):
            return _np.isclose(a, b, rtol=rtol, atol=atol, **k)
        a, b = _np.broadcast_arrays(_np.asarray(a, dtype=object), _np.asarray(b, dtype=object))
        out = _np.empty(a.shape, dtype=bool)      # a boolean array, as numpy returns: each entry is decided (forked) here
        for idx in _np.ndindex(a.shape):
            out[idx] = bool(abs(a[idx] - b[idx]) <= atol + rtol * abs(b[idx]))
        return out


def sym_allclose(a, b, rtol=1e-5, atol=1e-8):
    if not (has_sym(a) or has_sym(b)):
        return _np.allclose(defloat(a), defloat(b), rtol=rtol, atol=atol)
    a = _np.asarray(a, dtype=object)
    b = _np.asarray(b, dtype=object)
    a, b = _np.broadcast_arrays(a, b)
    r = SymBool(z3.BoolVal(True))
    for x, y in zip(a.flat, b.flat):
        r = r & (abs(x - y) <= atol + rtol * abs(y))
    return r


# ----------------------------------------------------------------------------------
# module loader
# ----------------------------------------------------------------------------------
REPO_SRC = "/repo/src"


def source_path(modname):
    p = REPO_SRC + "/" + modname.replace(".", "/")
    import os
    if os.path.isdir(p):
        return p + "/__init__.py"
    return p + ".py"


def load_shimmed(modname, overrides=None, transform=None, alias=None, pre=None):
    """Exec the *current source text* of ``modname`` into a fresh module object whose
    relative imports resolve to the real chmpy, then rebind selected globals."""
    path = source_path(modname)
    src = open(path).read()
    tree = ast.parse(src, path)
    if transform is not None:
        tree = transform(tree)
        ast.fix_missing_locations(tree)
    code = compile(tree, path, "exec")
    m = types.ModuleType(alias or (modname + "__symx"))
    m.__file__ = path
    m.__package__ = modname if path.endswith("__init__.py") else modname.rsplit(".", 1)[0]
    if path.endswith("__init__.py"):
        m.__path__ = [path.rsplit("/", 1)[0]]
    m.__name__ = modname  # so that relative imports and logging names match
    for k, v in (pre or {}).items():   # names the module captures at import time (e.g. float in parser tables)
        m.__dict__[k] = v
    exec(code, m.__dict__)
    shim = SymNumpy()
    if "np" in m.__dict__:
        m.__dict__["np"] = shim
    if m.__dict__.get("close") is _np.allclose:
        m.__dict__["close"] = sym_allclose
    if m.__dict__.get("zeros") is _np.zeros:
        m.__dict__["zeros"] = shim.zeros
    for k, v in (overrides or {}).items():
        m.__dict__[k] = v
    m.__symnp__ = shim
    return m


# ----------------------------------------------------------------------------------
# model -> python values
# ----------------------------------------------------------------------------------
def model_value(model, t):
    v = model.eval(t, model_completion=True)
    if z3.is_int_value(v):
        return v.as_long()
    if z3.is_rational_value(v):
        return Fraction(v.numerator_as_long(), v.denominator_as_long())
    if z3.is_algebraic_value(v):
        a = v.approx(30)
        return Fraction(a.numerator_as_long(), a.denominator_as_long())
    if z3.is_true(v):
        return True
    if z3.is_false(v):
        return False
    raise SymUnsupported("model value %s" % v)
