"""IEEE-754 binary64 symbolic scalars (z3 FP theory) for the few lemmas where rounding is
the subject (translation % 1, round(12 t), Korobov % 1)."""
import math
import numpy as _np
import z3

from .symx import Sym, SymBool, SymUnsupported

F64 = z3.Float64()
RNE, RTZ = z3.RNE(), z3.RTZ()


def fpval(x):
    return z3.FPVal(float(x), F64)


class SymFP:
    __slots__ = ("t",)

    def __init__(self, t):
        self.t = t

    @staticmethod
    def _lift(o):
        if isinstance(o, SymFP):
            return o
        if isinstance(o, (int, float, _np.integer, _np.floating)) and not isinstance(o, bool):
            return SymFP(fpval(o))
        return None

    def _bin(self, o, fn, swap=False):
        if isinstance(o, _np.ndarray):
            return NotImplemented
        b = SymFP._lift(o)
        if b is None:
            return NotImplemented
        a = self
        if swap:
            a, b = b, a
        return SymFP(fn(a.t, b.t))

    def __add__(self, o): return self._bin(o, lambda a, b: z3.fpAdd(RNE, a, b))
    def __radd__(self, o): return self._bin(o, lambda a, b: z3.fpAdd(RNE, a, b), True)
    def __sub__(self, o): return self._bin(o, lambda a, b: z3.fpSub(RNE, a, b))
    def __rsub__(self, o): return self._bin(o, lambda a, b: z3.fpSub(RNE, a, b), True)
    def __mul__(self, o): return self._bin(o, lambda a, b: z3.fpMul(RNE, a, b))
    def __rmul__(self, o): return self._bin(o, lambda a, b: z3.fpMul(RNE, a, b), True)
    def __truediv__(self, o): return self._bin(o, lambda a, b: z3.fpDiv(RNE, a, b))
    def __rtruediv__(self, o): return self._bin(o, lambda a, b: z3.fpDiv(RNE, a, b), True)
    def __neg__(self): return SymFP(z3.fpNeg(self.t))
    def __abs__(self): return SymFP(z3.fpAbs(self.t))

    def __mod__(self, o):
        """numpy/CPython float modulo for a positive constant divisor b (npy_divmod):
        m = fmod(a, b); if m != 0 and m < 0: m += b;  if m == 0: +0.0.
        fmod(a,b) is exact: a - b*trunc(a/b) needs care; only b == 1 is modelled
        (then trunc(a) is exact and a - trunc(a) is exact)."""
        if isinstance(o, _np.ndarray):
            return NotImplemented
        if not (isinstance(o, (int, float)) and float(o) == 1.0):
            raise SymUnsupported("FP modulo only by 1")
        a = self.t
        fm = z3.fpSub(RTZ, a, z3.fpRoundToIntegral(RTZ, a))
        one, zero = fpval(1.0), fpval(0.0)
        return SymFP(z3.If(z3.fpIsZero(fm), zero, z3.If(z3.fpLT(fm, zero), z3.fpAdd(RNE, fm, one), fm)))

    def _cmp(self, o, fn):
        b = SymFP._lift(o)
        if b is None:
            return NotImplemented
        return SymBool(fn(self.t, b.t))

    def __lt__(self, o): return self._cmp(o, z3.fpLT)
    def __le__(self, o): return self._cmp(o, z3.fpLEQ)
    def __gt__(self, o): return self._cmp(o, z3.fpGT)
    def __ge__(self, o): return self._cmp(o, z3.fpGEQ)
    def __eq__(self, o): return self._cmp(o, z3.fpEQ)
    def __ne__(self, o): return self._cmp(o, lambda a, b: z3.Not(z3.fpEQ(a, b)))
    __hash__ = None

    def rint(self):
        return SymFP(z3.fpRoundToIntegral(RNE, self.t))

    def floor(self):
        return SymFP(z3.fpRoundToIntegral(z3.RTN(), self.t))

    def ceil(self):
        return SymFP(z3.fpRoundToIntegral(z3.RTP(), self.t))

    def to_int(self):
        """C-style conversion of an (integral, small) double to a mathematical integer."""
        bv = z3.fpToSBV(RTZ, self.t, z3.BitVecSort(64))
        return Sym(z3.BV2Int(bv, is_signed=True))

    def __float__(self):
        raise SymUnsupported("float() of a symbolic double")

    def __repr__(self):
        return "SymFP(%s)" % self.t

from . import symx as _symx
_symx.register_symtype(SymFP)
