"""Runner for CrossHair contracts (engine E-A): one `crosshair check` process per condition,
in parallel, verdict mapping per DESIGN 2 E-A."""
import ast
import os
import re
import subprocess
import sys
import time
from concurrent.futures import ThreadPoolExecutor

ROOT = os.path.dirname(os.path.dirname(os.path.abspath(__file__)))


def conditions(path):
    """[(function name, line of def, has 'post: False' twin marker)] for every contract function in the file."""
    tree = ast.parse(open(path).read())
    out = []
    for node in tree.body:
        if isinstance(node, ast.FunctionDef):
            doc = ast.get_docstring(node) or ""
            if "post:" in doc:
                out.append((node.name, node.lineno, bool(re.search(r"post:\s*False\s*$", doc, re.M))))
    return out


def run_condition(path, name, line, timeout, extra_env=None):
    env = dict(os.environ)
    env["PYTHONPATH"] = ROOT + ":/repo/src" + (":" + env["PYTHONPATH"] if env.get("PYTHONPATH") else "")
    env["PYTHONDONTWRITEBYTECODE"] = "1"
    if extra_env:
        env.update(extra_env)
    cmd = [sys.executable, "-m", "crosshair", "check", "--report_all", "--per_condition_timeout", str(timeout),
           "--per_path_timeout", str(max(5, timeout // 4)), "%s:%d" % (path, line)]
    t0 = time.time()
    try:
        p = subprocess.run(cmd, env=env, capture_output=True, text=True, timeout=timeout * 2 + 60)
        out = p.stdout + p.stderr
    except subprocess.TimeoutExpired as e:
        out = "TIMEOUT " + str(e)
    dt = time.time() - t0
    verdict, detail = "unknown", out.strip().splitlines()[-1] if out.strip() else ""
    for ln in out.splitlines():
        if "Confirmed over all paths" in ln:
            verdict, detail = "holds", ln
        elif ": error:" in ln:
            verdict, detail = "counterexample", ln
            break
        elif "Not confirmed" in ln or "Unable to meet precondition" in ln:
            verdict, detail = "unknown", ln
    return {"name": name, "verdict": verdict, "seconds": round(dt, 2), "detail": detail.split(": ", 2)[-1][:400], "raw": out[-2000:]}


def parse_call(detail, name):
    """arguments of the counterexample call, as a python tuple (via literal_eval)."""
    m = re.search(re.escape(name) + r"\((.*?)\)(?: \(which|$)", detail)
    if not m:
        return None
    try:
        return ast.literal_eval("(" + m.group(1) + ",)")
    except Exception:
        return None


def run_all(path, timeout, only=None, nproc=16):
    conds = [c for c in conditions(path) if only is None or c[0] in only]
    with ThreadPoolExecutor(max_workers=nproc) as ex:
        res = list(ex.map(lambda c: run_condition(path, c[0], c[1], timeout), conds))
    return {c[0]: (r, c[2]) for c, r in zip(conds, res)}
