"""Plumbing shared by all property checks: solver queries with vacuity twins, replay,
known findings, evidence."""
from __future__ import annotations

import hashlib
import inspect
import json
import os
import sys
import time
import traceback
from fractions import Fraction

import z3

ROOT = os.path.dirname(os.path.dirname(os.path.abspath(__file__)))
EXIT_OK, EXIT_VIOLATION, EXIT_HARNESS = 0, 1, 3


class HarnessError(Exception):
    pass


def _jsonable(x):
    if isinstance(x, Fraction):
        return float(x)
    if isinstance(x, (list, tuple)):
        return [_jsonable(v) for v in x]
    if isinstance(x, dict):
        return {str(k): _jsonable(v) for k, v in x.items()}
    try:
        import numpy as np
        if isinstance(x, np.ndarray):
            return _jsonable(x.tolist())
        if isinstance(x, np.generic):
            return x.item()
    except Exception:
        pass
    if isinstance(x, (str, int, float, bool)) or x is None:
        return x
    return repr(x)


class Result:
    def __init__(self, verdict, model=None, seconds=0.0, solver=None):
        self.verdict = verdict  # 'holds' | 'cex' | 'unknown'
        self.model = model
        self.seconds = seconds
        self.solver = solver

    @property
    def holds(self):
        return self.verdict == "holds"


class Ctx:
    def __init__(self, pid, tier, seed):
        self.pid = pid
        self.tier = tier
        self.seed = seed
        self.t0 = time.time()
        self.queries = []
        self.functions = []
        self.bounds = []
        self.assumptions = []
        self.stubs = []
        self.outside = []
        self.inconclusive = []
        self.fidelity = []
        self.replays = []
        self.violations = 0
        self.known_hits = []
        self.harness_errors = []
        self.paths = 0
        self.branches = 0
        self.notes = []
        self.samples = []
        self._vac_cache = {}
        self.default_timeout = 60 if tier == "quick" else 600
        self._replay_n = 0
        self.max_reports = 0      # 0 = no limit; a check may cap the number of distinct reproduced reports per run
        self._reported = set()
        self.known = load_known_findings()

    # ------------------------------------------------------------------ bookkeeping
    def encode(self, *objs):
        for o in objs:
            try:
                src = inspect.getsource(o)
                f = inspect.getsourcefile(o)
            except Exception:
                src, f = repr(o), "?"
            self.functions.append({
                "file": f, "name": getattr(o, "__qualname__", getattr(o, "__name__", str(o))),
                "sha1": hashlib.sha1(src.encode()).hexdigest()[:12]})

    def encode_file(self, path, what=""):
        with open(path, "rb") as fh:
            h = hashlib.sha1(fh.read()).hexdigest()[:12]
        self.functions.append({"file": path, "name": what or os.path.basename(path), "sha1": h})

    def bound(self, s): self.bounds.append(s)
    def assume(self, s): self.assumptions.append(s)
    def stub(self, s): self.stubs.append(s)
    def out_of_scope(self, s): self.outside.append(s)
    def note(self, s): self.notes.append(s)

    def add_paths(self, ex):
        self.paths += ex.stats["paths"]
        self.branches += ex.stats["branch_queries"]

    def fidelity_check(self, name, ok, detail=""):
        """Translator / stub validation against the real implementation on concrete inputs."""
        self.fidelity.append({"name": name, "ok": bool(ok), "detail": detail})
        if not ok:
            self.harness_error("fidelity check failed: %s %s" % (name, detail))

    def concrete_note(self, name, ok, detail=""):
        """A concrete sanity run of a replay oracle on the real code (not part of the verdict)."""
        self.fidelity.append({"name": name, "ok": bool(ok), "detail": detail, "verdict_relevant": False})

    def compiled_check(self, name, ok, detail=""):
        """pyx2py translation vs compiled .so on concrete inputs.  They agree on the unchanged tree (which validates the
        translator); a disagreement after the .pyx was edited means the compiled module is stale (Cython is not installed, nobody
        can rebuild it here): verdicts are then about the source, and the evidence says so."""
        self.fidelity.append({"name": name, "ok": bool(ok), "detail": detail, "kind": "translation-vs-compiled"})
        if not ok:
            self.notes.append("compiled_module_differs_from_source: %s" % name)

    def harness_error(self, msg):
        self.harness_errors.append(msg)
        print("HARNESS-ERROR property=%s %s" % (self.pid, msg), flush=True)

    # ------------------------------------------------------------------ solver queries
    def _solver(self, timeout_s, logic=None):
        s = z3.SolverFor(logic) if logic else z3.Solver()
        s.set("timeout", int(timeout_s * 1000))
        return s

    def query(self, name, assumptions, goal, ex=None, timeout=None, logic=None, sample=None,
              vacuity=True):
        """Decide  assumptions => goal.  Returns Result.  The vacuity twin
        (assumptions alone must be sat) is discharged first (cached per assumption set)."""
        timeout = timeout or self.default_timeout
        assumptions = list(assumptions)
        if not z3.is_expr(goal):
            if hasattr(goal, "t") and z3.is_expr(goal.t):
                goal = goal.t              # a symbolic truth value of the executor
            else:
                # the code under test produced a concrete truth value where a symbolic one is expected (e.g. a value it kept from before)
                goal = z3.BoolVal(bool(goal))
        extra = ex.cone(assumptions + [goal]) if ex is not None else []
        if vacuity:
            key = hashlib.sha1(("\n".join(sorted(a.sexpr() for a in assumptions + extra))).encode()).hexdigest()
            if key not in self._vac_cache:
                s = self._solver(min(timeout, 20), logic)
                for a in assumptions + extra:
                    s.add(a)
                t0 = time.time()
                r = str(s.check())
                self._vac_cache[key] = r
                self.queries.append({"name": name + "#vacuity-twin", "verdict": r, "expect": "sat",
                                     "seconds": round(time.time() - t0, 3), "solver": "z3 " + z3.get_version_string()})
                if r == "unsat":
                    self.harness_error("vacuous assumptions in query %s" % name)
            if self._vac_cache[key] == "unsat":
                return Result("unknown")
        s = self._solver(timeout, logic)
        for a in assumptions + extra:
            s.add(a)
        s.add(z3.Not(goal))
        t0 = time.time()
        r = str(s.check())
        dt = time.time() - t0
        rec = {"name": name, "verdict": {"unsat": "holds", "sat": "counterexample", "unknown": "unknown"}[r],
               "seconds": round(dt, 3), "solver": "z3 " + z3.get_version_string()}
        try:      # an obligation whose goal the term simplifier already reduces to true needed no solver reasoning
            rec["nontrivial"] = not z3.is_true(z3.simplify(goal))
        except Exception:
            rec["nontrivial"] = True
        if logic:
            rec["logic"] = logic
        if sample is not None:
            rec["sample"] = sample
        self.queries.append(rec)
        if r == "unsat":
            return Result("holds", seconds=dt, solver=s)
        if r == "sat":
            return Result("cex", model=s.model(), seconds=dt, solver=s)
        self.inconclusive.append({"query": name, "reason": s.reason_unknown()})
        return Result("unknown", seconds=dt, solver=s)

    def query_many(self, tasks, nproc=None):
        """Discharge many independent queries on forked workers (z3 terms are inherited by
        fork, only plain data comes back).  task = dict(name, assumptions, goal, ex=None,
        timeout=None, extract=None, sample=None, expect=None); ``extract(model)`` runs in the
        worker and must return plain data.  With expect='sat' the formula list
        ``assumptions`` (goal ignored) is a witness twin.  Returns list of Result
        (model = extracted data)."""
        global _TASKS
        import multiprocessing as mp
        nproc = nproc or min(16, os.cpu_count() or 1, max(1, len(tasks)))
        _TASKS = (self, tasks)
        if len(tasks) <= 1 or nproc == 1:
            raw = [_run_task(i) for i in range(len(tasks))]
        else:
            with mp.get_context("fork").Pool(nproc) as pool:
                raw = pool.map(_run_task, range(len(tasks)), chunksize=1)
        out = []
        for t, (recs, verdict, data, dt, inc, herr) in zip(tasks, raw):
            self.queries.extend(recs)
            self.inconclusive.extend(inc)
            for h in herr:
                self.harness_error(h)
            out.append(Result(verdict, model=data, seconds=dt))
        _TASKS = None
        return out

    def parallel_sections(self, sections, nproc=None):
        """Run independent parts of a check in forked children.  section = (name, fn(subctx)).
        Children record queries etc. on a sub-context; violations are collected and replayed
        by the parent (replay functions must be module-level)."""
        import multiprocessing as mp
        global _SECTIONS
        _SECTIONS = (self, sections)
        nproc = nproc or min(len(sections), os.cpu_count() or 1)
        with _NoDaemonPool(nproc) as pool:
            raw = pool.map(_run_section, range(len(sections)), chunksize=1)
        _SECTIONS = None
        for (name, _), d in zip(sections, raw):
            for k in ("queries", "inconclusive", "fidelity", "bounds", "assumptions", "stubs", "outside", "notes", "functions", "samples"):
                getattr(self, k).extend(d[k])
            self.paths += d["paths"]
            self.branches += d["branches"]
            for h in d["harness_errors"]:
                self.harness_error("[%s] %s" % (name, h))
            for (key, what, data, fn, soft) in d["violations"]:
                self.violation(key, what, data, fn, soft=soft)

    def witness(self, name, formulas, ex=None, timeout=None, expect="sat"):
        """A reachability / sanity twin: ``formulas`` must be satisfiable."""
        timeout = timeout or min(self.default_timeout, 60)
        formulas = list(formulas)
        extra = ex.cone(formulas) if ex is not None else []
        s = self._solver(timeout)
        for a in formulas + extra:
            s.add(a)
        t0 = time.time()
        r = str(s.check())
        self.queries.append({"name": name, "verdict": r, "expect": expect, "seconds": round(time.time() - t0, 3),
                             "solver": "z3 " + z3.get_version_string()})
        if r == "unknown":
            self.inconclusive.append({"query": name, "reason": s.reason_unknown()})
        elif expect is not None and r != expect:
            self.harness_error("twin %s expected %s got %s" % (name, expect, r))
        return r, (s.model() if r == "sat" else None)

    def record(self, name, verdict, seconds=0.0, **kw):
        rec = {"name": name, "verdict": verdict, "seconds": round(seconds, 3)}
        rec.update(kw)
        self.queries.append(rec)

    def mark_inconclusive(self, name, reason):
        self.inconclusive.append({"query": name, "reason": reason})

    # ------------------------------------------------------------------ violations
    def _is_known(self, key):
        return any(k.get("status") == "known" and k["property"] == self.pid and k["key"] == key for k in self.known)

    def violation(self, key, what, data, reproduce, soft=False):
        """A solver counterexample.  ``reproduce(data)`` runs the *real* code and returns
        (reproduced: bool, detail).  Only reproduced failures are reported."""
        if key in self._reported or (self.max_reports and self.violations >= self.max_reports and not self._is_known(key)):
            # already reported (or the report limit of this run is reached): counted, not replayed again
            self.replays.append({"key": key, "what": what, "data": _jsonable(data), "reproduced": None,
                                 "detail": "not replayed: %s" % ("same key already reported" if key in self._reported else "report limit reached")})
            return True
        try:
            ok, detail = reproduce(data)
        except Exception as e:  # the replay itself blew up: that is a reproduction of *something*
            ok, detail = False, "replay raised %s: %s" % (type(e).__name__, e)
            traceback.print_exc()
        rec = {"key": key, "what": what, "data": _jsonable(data), "reproduced": bool(ok), "detail": _jsonable(detail)}
        self.replays.append(rec)
        if not ok:
            if soft:
                # a lemma stricter than the observable property (stated where used): not reproducible => inconclusive
                self.mark_inconclusive(key, "symbolic counterexample (%s) has no observable effect in the replay scenario: %s" % (what, detail))
                return False
            self.harness_error("counterexample for %s (%s) did not reproduce on the real code: %s" % (key, what, detail))
            return False
        for k in self.known:
            if k.get("status") == "known" and k["property"] == self.pid and k["key"] == key:
                line = "KNOWN-FINDING: property=%s %s" % (self.pid, k.get("what", what))
                if line not in self.known_hits:
                    self.known_hits.append(line)
                    print(line, flush=True)
                return True
        if key in self._reported:
            rec["duplicate_of_reported_key"] = True
            return True
        self._reported.add(key)
        self._replay_n += 1
        d = os.path.join(ROOT, "replays", self.pid)
        os.makedirs(d, exist_ok=True)
        path = os.path.join(d, "%d.json" % self._replay_n)
        with open(path, "w") as fh:
            json.dump({"property": self.pid, "key": key, "what": what, "data": _jsonable(data),
                       "detail": _jsonable(detail)}, fh, indent=1)
        self.violations += 1
        print("VIOLATION property=%s replay=%s  # %s: %s" % (self.pid, path, key, what), flush=True)
        return True

    # ------------------------------------------------------------------ evidence
    def finish(self):
        wall = time.time() - self.t0
        real_q = [q for q in self.queries if not q["name"].endswith("#vacuity-twin")]
        decided = [q for q in real_q if q["verdict"] in ("holds", "counterexample", "sat", "unsat")]
        # deterministic: a decided obligation counts unless its goal simplified to true syntactically (recorded by query());
        # witness / twin records and explicitly marked records count
        names = {q["name"] for q in decided if q.get("nontrivial", True)}
        samples = self.samples[:]
        for q in real_q[:8]:
            samples.append({k: q[k] for k in q if k in ("name", "verdict", "seconds", "logic", "sample")})
        cov = {
            "evaluations": len(self.queries),
            "distinct_nontrivial": len(names),
            "rule": "one evaluation = one SMT query (or CrossHair condition) sent to the solver, vacuity twins included; "
                    "distinct_nontrivial = distinct named obligations that were decided (holds/counterexample/sat) and whose goal "
                    "does not already simplify to true by z3's term simplifier (a deterministic count, independent of timing)",
            "samples": samples or [{"note": "no query was issued"}],
            "queries": self.queries,
            "functions_encoded": self.functions,
            "bounds": self.bounds,
            "stubs": self.stubs,
            "outside_claim": self.outside,
            "inconclusive": self.inconclusive,
            "fidelity_checks": self.fidelity,
            "replays": self.replays,
            "known_findings_hit": self.known_hits,
            "harness_errors": self.harness_errors,
            "notes": self.notes,
            "solver_seconds": round(sum(q.get("seconds", 0) for q in self.queries), 3),
            "exhaustive": False,
        }
        validated = len([f for f in self.fidelity if f["ok"]]) + len([r for r in self.replays if r["reproduced"]])
        if self.paths >= 1:
            cov["states"] = self.paths
            cov["transitions"] = max(1, self.branches)
            cov["states_rule"] = "states = execution paths of the real code explored symbolically, transitions = branch decisions taken on them"
        else:
            # no path exploration in this check (obligations are discharged directly): one symbolic state per decided obligation
            cov["states"] = max(1, len({q["name"] for q in decided}))
            cov["transitions"] = max(1, len(self.queries))
            cov["states_rule"] = "no path exploration in this check: states = distinct obligations decided, transitions = solver calls / ground evaluations made for them"
        cov["traces_validated_against_impl"] = validated
        ev = {
            "property_id": self.pid, "tier": self.tier, "seed": self.seed, "level": "model_checking",
            "coverage": cov, "assumptions": self.assumptions + ["stub: " + s for s in self.stubs],
            "wall_s": round(wall, 2), "violations": self.violations,
        }
        os.makedirs(os.path.join(ROOT, "evidence"), exist_ok=True)
        with open(os.path.join(ROOT, "evidence", self.pid + ".json"), "w") as fh:
            json.dump(_jsonable(ev), fh, indent=1)
        n_hold = len([q for q in real_q if q["verdict"] == "holds"])
        print("SUMMARY property=%s tier=%s queries=%d holds=%d inconclusive=%d violations=%d known=%d harness_errors=%d wall=%.1fs"
              % (self.pid, self.tier, len(real_q), n_hold, len(self.inconclusive), self.violations,
                 len(self.known_hits), len(self.harness_errors), wall), flush=True)
        if self.violations:
            return EXIT_VIOLATION
        if self.harness_errors:
            return EXIT_HARNESS
        return EXIT_OK


_TASKS = None
_SECTIONS = None


class _NoDaemonPool:
    """A process pool whose workers may fork pools of their own (query_many inside a section)."""

    def __init__(self, n):
        import multiprocessing as mp
        import multiprocessing.pool

        class NoDaemonProcess(mp.get_context("fork").Process):
            @property
            def daemon(self):
                return False

            @daemon.setter
            def daemon(self, v):
                pass

        class Ctxt(type(mp.get_context("fork"))):
            Process = NoDaemonProcess

        class Pool(multiprocessing.pool.Pool):
            def __init__(self, *a, **k):
                k["context"] = Ctxt()
                super().__init__(*a, **k)
        self.pool = Pool(n)

    def __enter__(self):
        return self.pool

    def __exit__(self, *a):
        self.pool.close()
        self.pool.join()


def _run_section(i):
    ctx, sections = _SECTIONS
    name, fn = sections[i]
    sub = Ctx.__new__(Ctx)
    sub.__dict__.update(ctx.__dict__)
    for k in ("queries", "inconclusive", "fidelity", "bounds", "assumptions", "stubs", "outside", "notes", "functions", "samples",
              "harness_errors", "replays"):
        setattr(sub, k, [])
    sub._vac_cache = {}
    sub.paths = sub.branches = 0
    viol = []
    sub.harness_error = lambda msg: sub.harness_errors.append(msg)
    sub.violation = lambda key, what, data, fn, soft=False: (viol.append((key, what, _jsonable(data), fn, soft)), True)[1]
    try:
        fn(sub)
    except BaseException as e:  # noqa
        traceback.print_exc()
        sub.harness_errors.append("section %s: uncaught %s: %s" % (name, type(e).__name__, e))
    d = {k: getattr(sub, k) for k in ("queries", "inconclusive", "fidelity", "bounds", "assumptions", "stubs", "outside", "notes",
                                      "functions", "samples", "harness_errors", "paths", "branches")}
    d["violations"] = viol
    return _jsonable_keep(d)


def _jsonable_keep(d):
    """make everything picklable plain data except replay callables"""
    out = {}
    for k, v in d.items():
        if k == "violations":
            out[k] = v
        else:
            out[k] = _jsonable(v) if not isinstance(v, int) else v
    return out


def _run_task(i):
    ctx, tasks = _TASKS
    t = tasks[i]
    sub = Ctx.__new__(Ctx)
    sub.__dict__.update(ctx.__dict__)
    sub.queries, sub.inconclusive, sub.harness_errors, sub._vac_cache = [], [], [], {}
    sub.harness_error = lambda msg: sub.harness_errors.append(msg)
    t0 = time.time()
    if "build" in t:  # obligations constructed in the worker (term construction can dominate)
        t = dict(t)
        t.update(t["build"]())
    if t.get("expect") == "sat":
        r, mdl = sub.witness(t["name"], t["assumptions"], ex=t.get("ex"), timeout=t.get("timeout"), expect=t.get("expect_strict"))
        verdict = {"sat": "cex", "unsat": "holds", "unknown": "unknown"}[r]
    else:
        res = sub.query(t["name"], t["assumptions"], t["goal"], ex=t.get("ex"), timeout=t.get("timeout"),
                        sample=t.get("sample"), vacuity=t.get("vacuity", True), logic=t.get("logic"))
        verdict, mdl = res.verdict, res.model
    data = None
    if mdl is not None and t.get("extract") is not None:
        data = t["extract"](mdl)
    return sub.queries, verdict, data, time.time() - t0, sub.inconclusive, sub.harness_errors


def load_known_findings():
    p = os.path.join(ROOT, "known_findings.json")
    if not os.path.exists(p):
        return []
    with open(p) as fh:
        return json.load(fh).get("findings", [])
