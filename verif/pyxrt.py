"""Runtime for pyx2py translations: C semantics of division, casts and typed assignment,
libc math -- concrete (numpy scalars, to agree with the compiled module) and symbolic (symx)."""
import math

import numpy as np
import z3

from . import symx
from .symx import Sym, SymBool, SymUnsupported

M32 = 0xFFFFFFFF


class SymBV:
    """32-bit unsigned machine word (z3 BitVec 32)."""
    __slots__ = ("t",)

    def __init__(self, t):
        self.t = t

    @staticmethod
    def _lift(o):
        if isinstance(o, SymBV):
            return o
        if isinstance(o, (int, np.integer)) and not isinstance(o, bool):
            return SymBV(z3.BitVecVal(int(o) & M32, 32))
        return None

    def _bin(self, o, fn, swap=False):
        if isinstance(o, np.ndarray):
            return NotImplemented
        b = SymBV._lift(o)
        if b is None:
            return NotImplemented
        a = self
        if swap:
            a, b = b, a
        return SymBV(z3.simplify(fn(a.t, b.t)))

    def __xor__(self, o): return self._bin(o, lambda a, b: a ^ b)
    __rxor__ = __xor__
    def __and__(self, o): return self._bin(o, lambda a, b: a & b)
    __rand__ = __and__
    def __or__(self, o): return self._bin(o, lambda a, b: a | b)
    __ror__ = __or__
    def __add__(self, o): return self._bin(o, lambda a, b: a + b)
    __radd__ = __add__
    def __sub__(self, o): return self._bin(o, lambda a, b: a - b)
    def __rsub__(self, o): return self._bin(o, lambda a, b: a - b, True)
    def __mul__(self, o): return self._bin(o, lambda a, b: a * b)
    __rmul__ = __mul__
    def __lshift__(self, o): return self._bin(o, lambda a, b: a << b)
    def __rlshift__(self, o): return self._bin(o, lambda a, b: a << b, True)
    def __rshift__(self, o): return self._bin(o, lambda a, b: z3.LShR(a, b))
    def __rrshift__(self, o): return self._bin(o, lambda a, b: z3.LShR(a, b), True)

    def _cmp(self, o, fn):
        b = SymBV._lift(o)
        if b is None:
            return NotImplemented
        return SymBool(fn(self.t, b.t))

    def __eq__(self, o): return self._cmp(o, lambda a, b: a == b)
    def __ne__(self, o): return self._cmp(o, lambda a, b: a != b)
    def __lt__(self, o): return self._cmp(o, z3.ULT)
    def __le__(self, o): return self._cmp(o, z3.ULE)
    def __gt__(self, o): return self._cmp(o, z3.UGT)
    def __ge__(self, o): return self._cmp(o, z3.UGE)
    __hash__ = None

    def __index__(self):
        t = z3.simplify(self.t)
        if z3.is_bv_value(t):
            return t.as_long()
        raise SymUnsupported("index from a symbolic machine word")

    __int__ = __index__

    def to_real(self):
        return Sym(z3.ToReal(z3.BV2Int(self.t, is_signed=False)))

    def __repr__(self):
        return "SymBV(%s)" % self.t


symx.register_symtype(SymBV)


def _is_intlike(x):
    return (isinstance(x, (int, np.integer)) and not isinstance(x, bool)) or (isinstance(x, Sym) and (x.is_int or x.intlike)) or isinstance(x, SymBV)


def __cdiv__(a, b):
    if _is_intlike(a) and _is_intlike(b):
        if isinstance(a, SymBV) or isinstance(b, SymBV):
            a, b = SymBV._lift(a), SymBV._lift(b)
            return SymBV(z3.UDiv(a.t, b.t))
        if isinstance(a, Sym) or isinstance(b, Sym):
            a, b = Sym._lift(a), Sym._lift(b)
            if z3.is_int_value(b.t) and b.t.as_long() > 0:
                q = z3.If(a.t >= 0, a.t / b.t, -((-a.t) / b.t))
                return Sym(z3.simplify(q))
            raise SymUnsupported("C division by a symbolic integer")
        a, b = int(a), int(b)
        q = abs(a) // abs(b)
        return q if (a >= 0) == (b >= 0) else -q
    return a / b


def __cmod__(a, b):
    if _is_intlike(a) and _is_intlike(b) and not isinstance(a, (Sym, SymBV)) and not isinstance(b, (Sym, SymBV)):
        a, b = int(a), int(b)
        r = abs(a) % abs(b)
        return r if a >= 0 else -r
    return a % b


def __cast__(t, v):
    if t in ("int", "long"):
        return __coerce__("int", v)
    if t in ("unsigned int", "unsigned"):
        return __coerce__("u32", v)
    if t == "double":
        return __coerce__("f64", v)
    if t == "float":
        return __coerce__("f32", v)
    raise SymUnsupported("cast to %s" % t)


def __coerce__(cat, v):
    if cat in ("int", "u32", "f32", "f64", "u64"):
        pass
    else:
        cat = {"int": "int", "long": "int", "unsigned int": "u32", "float": "f32", "double": "f64", "bint": "int", "size_t": "u64"}.get(
            cat.split("[")[0].strip() if "[" not in cat else "", None)
        if cat is None:
            return v
    if isinstance(v, SymBV):
        if cat == "u32":
            return v
        if cat in ("f64", "f32"):
            return v.to_real()
        if cat == "int":
            return Sym(z3.BV2Int(v.t, is_signed=True))
        return v
    if isinstance(v, Sym):
        if cat == "int":
            return v if (v.is_int or v.intlike) else v.trunc()
        if cat in ("u32", "u64"):
            if v.is_int or v.intlike:
                return v   # callers keep counters in range; wrap-around of symbolic ints is not modelled
            return v.trunc()
        if cat in ("f32", "f64"):
            return Sym(v.real()) if v.is_int else v
        return v
    if isinstance(v, (symx.SymAngle, SymBool)):
        return v
    if not isinstance(v, (int, float, complex, np.number, bool)):
        return v      # foreign symbolic objects (polynomials, complex pairs) pass through untyped
    if cat == "int":
        return int(v)
    if cat == "u32":
        return int(v) & M32
    if cat == "u64":
        return int(v)
    if cat == "f32":
        if symx.active():
            return v
        return np.float32(v)
    if cat == "f64":
        return float(v) if not isinstance(v, complex) else v
    return v


def __carray__(base, n):
    return [0.0 if base in ("float", "double") else 0] * n


def _m(fn, symname=None):
    def f(x, *a):
        if isinstance(x, (Sym, symx.SymAngle)) or any(isinstance(y, Sym) for y in a):
            if symname is None:
                raise SymUnsupported("libc %s on a symbolic value" % fn.__name__)
            return symname(x, *a)
        return fn(float(x), *[float(y) for y in a])
    return f


def _sym_sqrt(x):
    return x.sqrt()


def _sym_fabs(x):
    return abs(x)


def _sym_pow(x, y):
    if isinstance(y, Sym):
        raise SymUnsupported("pow with symbolic exponent")
    return x ** y


def c_abs(x):
    return abs(x)


RUNTIME = {
    "__cdiv__": __cdiv__, "__cmod__": __cmod__, "__cast__": __cast__, "__coerce__": __coerce__, "__carray__": __carray__,
    "sqrt": _m(math.sqrt, _sym_sqrt), "fabs": _m(math.fabs, _sym_fabs), "ceil": _m(math.ceil, lambda x: x.ceil()),
    "floor": _m(math.floor, lambda x: x.floor()), "log": _m(math.log), "pow": _m(math.pow, _sym_pow),
    "cos": _m(math.cos, lambda x: x.cos()), "sin": _m(math.sin, lambda x: x.sin()), "exp": _m(math.exp),
    "M_PI": math.pi, "abs": c_abs, "cython": None,
}
