#!/bin/bash
# tools/regress_seeds.sh : every kept seeded change against the checks at their current state (sequential, uses /repo; ~2 h); then tools/audit_replays.py replays the saved counterexamples on the clean tree
# final regression: every kept seeded change against the check at its final state
cd /verif
mkdir -p ${REGRESS_OUT:-/var/tmp/regress} ${REPLAY_OUT:-/var/tmp/replays_seed}
rm -f ${REGRESS_OUT:-/var/tmp/regress}/summary.txt
cp evidence/*.json ${EVBAK:-/var/tmp/evbak}/
for d in seeded/*/; do
  name=$(basename $d)
  id=${name%%-*}
  case " $SKIP_IDS " in *" $id "*) continue;; esac
  git -C /repo diff --quiet || { echo "$name REPO-DIRTY" >> ${REGRESS_OUT:-/var/tmp/regress}/summary.txt; git -C /repo checkout -- .; }
  git -C /repo apply /verif/$d/patch.diff 2>/dev/null || { echo "$name PATCH-FAILS" >> ${REGRESS_OUT:-/var/tmp/regress}/summary.txt; continue; }
  rm -rf replays/$id
  s=$(date +%s)
  timeout 1500 bin/vcheck $id --tier quick > ${REGRESS_OUT:-/var/tmp/regress}/$name.log 2>&1
  rc=$?
  e=$(date +%s)
  git -C /repo checkout -- .
  git -C /repo clean -fdq src 2>/dev/null
  mkdir -p ${REPLAY_OUT:-/var/tmp/replays_seed}/$name
  cp replays/$id/*.json ${REPLAY_OUT:-/var/tmp/replays_seed}/$name/ 2>/dev/null
  echo "$name rc=$rc secs=$((e-s)) $(grep -m1 -E '^VIOLATION|^HARNESS' ${REGRESS_OUT:-/var/tmp/regress}/$name.log | cut -c1-140)" >> ${REGRESS_OUT:-/var/tmp/regress}/summary.txt
done
cp ${EVBAK:-/var/tmp/evbak}/*.json evidence/
echo DONE >> ${REGRESS_OUT:-/var/tmp/regress}/summary.txt
