#!/usr/bin/env python3
"""Regenerates /verif/MANIFEST.json from the table below and validates it."""
import json, os, sys
ROOT = os.path.dirname(os.path.dirname(os.path.abspath(__file__)))
sys.path.insert(0, ROOT)
from tools.manifest_data import CHECKS, NOT_APPLICABLE, ENGINES, NOTES

m = {
    "version": 1,
    "setup_cmd": "bash /verif/bin/setup.sh",
    "hooks": {
        "guard": "CHMPY_VERIF",
        "enable": "no source hooks are needed: instrumentation is applied from outside at load time (module globals rebound to shims); CHMPY_VERIF=1 is exported by bin/vcheck for completeness",
        "baseline_off_cmd": "cd /repo && /venv/bin/python -m pytest -ra -q -p no:cacheprovider --timeout=900 --continue-on-collection-errors",
        "source_commits": [],
        "add_only": True,
    },
    "engines": ENGINES,
    "checks": [],
    "notes": NOTES,
    "not_applicable": NOT_APPLICABLE,
}
for pid, c in sorted(CHECKS.items()):
    m["checks"].append({
        "property_id": pid,
        "quick_cmd": "bin/vcheck %s --tier quick" % pid,
        "thorough_cmd": "bin/vcheck %s --tier thorough" % pid,
        "evidence_file": "/verif/evidence/%s.json" % pid,
        "replay_cmd_template": "bin/vcheck --replay {path}",
        "engine": c["engine"],
        "level_claimed": {"category": "model_checking", "text": c["text"], "design_ref": c.get("design_ref", "DESIGN.md section 3 " + pid)},
        "level_note": c["note"],
        "technique": c["technique"],
    })
json.dump(m, open(os.path.join(ROOT, "MANIFEST.json"), "w"), indent=1)
try:
    import jsonschema
    jsonschema.validate(m, json.load(open("/root/.vp/MANIFEST.schema.json")))
    print("MANIFEST.json valid;", len(m["checks"]), "checks,", len(NOT_APPLICABLE), "not applicable")
except ImportError:
    print("jsonschema missing; not validated")
