#!/bin/bash
# tools/prep_seed.sh <ID> [suffix]  -> scratch worktree /tmp/wt_<ID><suffix> at /repo HEAD (with the compiled .so copied) and /tmp/seed_<ID><suffix>/property.txt
ID=$1; SFX=$2; WT=/tmp/wt_$ID$SFX; SD=/tmp/seed_$ID$SFX
git -C /repo worktree add -q --detach $WT HEAD || exit 1
mkdir -p $SD
( cd /repo && for f in $(find src -name "*.so"); do cp $f $WT/$f; done )
python3 - $ID $SD <<'PY'
import json,sys
for l in open('/verif/properties.jsonl'):
    d=json.loads(l)
    if d['id']==sys.argv[1]:
        open(sys.argv[2]+'/property.txt','w').write("ID: %s\nTitle: %s\n\nStatement: %s\n\nQuantified over: %s\n\nAnchors (files): %s\nMechanisms: %s\n"%(d['id'],d['title'],d['statement'],d['quantifier']['text'],', '.join(d['anchors']['files']), '; '.join(m['name']+' ('+m['where']+')' for m in d['anchors']['mechanism'])))
PY
echo $WT $SD
