ENGINES = [
    {"name": "symx", "path": "verif/symx.py", "serves_properties": ["C12"],
     "kind_free_text": "concolic execution of the real chmpy Python on z3 Real/Int terms (numpy names rebound to shims), DFS path forking, z3 5.1 decides each assertion"},
]
NOTES = ("Solver-based checking of the real code. Every check regenerates its encoding from /repo's working tree at run time. "
         "Exit 0 = no reproduced violation among decided queries (inconclusive queries are listed in the evidence), 1 = reproduced unlisted violation, 3 = harness error.")
ALL = ["C%02d" % i for i in range(1, 21)]
CHECKS = {
    "C12": dict(engine="symx",
                technique="symbolic execution of UnitCell constructors on z3 reals; each identity one NRA query (unsat = holds for all cells)",
                text="Bounded-symbolic verdict without a size bound: the real set_lengths_and_angles/set_vectors/named constructors run on symbolic lengths and (cos,sin) angle pairs; direct*inverse=I, Gram matrix, volume=det, starred lengths/angles, both construction routes and the round trip of symbolic coordinates are each decided by z3 (NRA) for all positive-volume cells.",
                note="Reals stand in for doubles; np.linalg.inv = adjugate/det; angles only via (cos,sin); cell_type naming stubbed out."),
}
NOT_APPLICABLE = [{"property_id": p, "reason": "check not yet implemented in this round (planned, see DESIGN.md section 3)"} for p in ALL if p not in CHECKS]
