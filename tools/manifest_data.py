ENGINES = [
    {"name": "symtext", "path": "verif/symtext.py", "serves_properties": ["C16"],
     "kind_free_text": "symbolic text: formatted symbolic numbers become placeholder strings of the exact printed length (explorer forks on sign and digit count, LRA), so the real string code slices/splits real text; float()/int() of a token that is not one whole written field fails"},
    {"name": "crosshair", "path": "verif/chx.py", "serves_properties": ["C17"],
     "kind_free_text": "CrossHair 0.0.110 (symbolic execution of Python with z3) on PEP-316 contracts that call the real functions; one process per condition; 'Confirmed over all paths' = holds within the stated bounds, anything else but a replayed counterexample = inconclusive"},
    {"name": "symx", "path": "verif/symx.py", "serves_properties": ["C03", "C11", "C12", "C16", "C17", "C18"],
     "kind_free_text": "concolic execution of the real chmpy Python on z3 Real/Int terms (numpy names rebound to shims), DFS path forking, z3 5.1 decides each assertion"},
]
NOTES = ("Solver-based checking of the real code. Every check regenerates its encoding from /repo's working tree at run time. "
         "Exit 0 = no reproduced violation among decided queries (inconclusive queries are listed in the evidence), 1 = reproduced unlisted violation, 3 = harness error.")
ALL = ["C%02d" % i for i in range(1, 21)]
CHECKS = {
    "C12": dict(engine="symx",
                technique="symbolic execution of UnitCell constructors on z3 reals; each identity one NRA query (unsat = holds for all cells)",
                text="Bounded-symbolic verdict without a size bound: the real set_lengths_and_angles/set_vectors/named constructors run on symbolic lengths and (cos,sin) angle pairs; direct*inverse=I, Gram matrix, volume=det, starred lengths/angles, both construction routes and the round trip of symbolic coordinates are each decided by z3 (NRA) for all positive-volume cells.",
                note="Reals stand in for doubles; np.linalg.inv = adjugate/det; angles only via (cos,sin); cell_type naming stubbed out."),
}
CHECKS["C18"] = dict(engine="symx",
    technique="symbolic execution of kabsch_rotation_matrix with SVD as a contract stub; optimality as a chain of z3 polynomial-identity and NRA queries",
    text="The real kabsch_rotation_matrix/reorient_points/rmsd_points/Dimer.calculate_transform run on symbolic point sets with LAPACK's SVD replaced by an arbitrary (v,s,w) satisfying its contract. On both branches of the determinant test z3 shows R = v.diag(1,1,d).w, orthogonal, det +1, tr(R^T A^T B) = s1+s2+d s3, and (unit-quaternion form) that no proper rotation exceeds that value; |AR-B|^2 is tied to the trace for any N by a polynomial identity. No bound on coordinates or point count.",
    note="Reals for doubles; SVD contract validated concretely; the step 'every orthogonal matrix is +-Rot(q)' and the chaining of the lemmas are textbook steps not machine-checked.")
CHECKS["C11"] = dict(engine="symx + z3 FP",
    technique="symbolic execution of the packed-code codec (LIA over the whole code space), FP64 bit-precise queries for translation wrap/rounding, LRA for apply forms; string grammar by solver-pruned path enumeration",
    text="encode/decode of the packed integer is executed on a symbolic code and decided for all 34,012,224 codes by single LIA queries; equality/hash/print modulo the lattice is decided under IEEE binary64 semantics for every double within 1e-12 of k/12+n (bounded n); apply on (N,3)/(N,4)/Cartesian forms is decided for arbitrary real operations and cells; string spellings are enumerated from a grammar (finite choice space).",
    note="FP part: one perturbed axis at a time, |n| bounded (see evidence); Fraction.limit_denominator is a validated contract stub; string part is enumeration, not symbolic.")
CHECKS["C03"] = dict(engine="symx",
    technique="symbolic execution of the Crystal neighbourhood queries: NRA completeness lemma on the captured slab bounds (all cells/radii/centres), forked slab-layout and KD-tree-answer exploration",
    text="The real atoms_in_radius/atomic_surroundings/molecule_environment/atom_group_surroundings run on a symbolic cell, radius and centres up to a stubbed slab(); z3 proves per axis that every image within the radius has its cell index inside the captured floor/ceil bounds (Cauchy-Schwarz, no bound on cell or radius) or returns an oblique cell that is replayed against a brute-force periodic search. slab() is executed for every bound box in [-1,1]^3 with symbolic atoms; the selection step is explored over all answer patterns of the KD-tree stub on 3-4 symbolic slab rows.",
    note="Reals for doubles; cell invariant D.I=1 assumed (C12); cKDTree replaced by its contract; images exactly at the radius excluded; functional_group_surroundings, molecular_shell and symmetry_unique_dimers not encoded.")
CHECKS["C17"] = dict(engine="crosshair + symx",
    technique="CrossHair symbolic execution of contracts over strings/ints; symx/z3 LIA for numeric lookup, ordering and radius helpers over all integers",
    text="Numeric lookup, the ordering laws (strict total order, carbon first) and the vectorised helpers are executed on symbolic integers and decided in LIA for every integer (no bound). String lookups are CrossHair contracts over all strings of length <= 3 from a 65-character alphabet (soundness: a returned element is named by the string), digit strings, and formulas of <= 4 elements; the finite spelling-variant space is enumerated completely as ground instances.",
    note="CrossHair conditions that are 'Not confirmed' within the time budget are listed as inconclusive (bug-hunting only); oracle = an independent reference table of symbols/names in /verif; radii and masses have no independent reference.")
CHECKS["C02"] = dict(engine="real code on the finite table + z3 (LRA/IsInt, quantified) for action equality",
    technique="complete ground evaluation of the 530 tabulated settings through the real SpaceGroup code; z3 decides equality of actions on a symbolic point modulo the lattice",
    text="The domain is the finite bundled table, so the verdicts (identity, uniqueness, closure, inverses, centrosymmetric flag, lookup by full list and by LATT+SYMM) are ground instances computed by the real code for all 530 settings - equivalent to complete enumeration. The solver part shows, for sampled compositions/inverses and the reduce->expand images of every setting, that the matched group element has the same action on a symbolic point for all x modulo Z^3.",
    note="The family adds no leverage over enumeration for the table itself (stated in DESIGN C02); composition is computed from SymmetryOperation.apply on basis points.")
CHECKS["C16"] = dict(engine="symx + symtext",
    technique="symbolic execution of the real XYZ/SDF writers and readers on symbolic coordinates, counts and bond indices; field lengths decided per sign/digit-count class (path forking pruned by z3 LRA/LIA)",
    text="Molecule.to_sdf_string -> parse_sdf_contents -> Molecule.from_sdf_dict and to_xyz_string -> parse_xyz_string run on symbolic coordinates; every feasible sign/digit-count class of the coordinate triple (729 for SDF's range, 1000-2744 for XYZ) is explored and on each the readers must recover each value from its own whole field in the V2000 columns; counts and bond lines for all counts/indices 0..999; 1-3 records with and without bond blocks.",
    note="CPython's formatting is modelled (length and rounding of '{:W.Pf}'/'{:Wd}'), validated against CPython at run start; bond perception is numeric and not encoded; 1-2 atoms per record (lines are formatted independently).")
CHECKS["C14"] = dict(engine="AST extraction + z3 bounded model checking",
    technique="transition system (caches, state writes, invalidations, call graph) extracted from crystal.py's AST each run; z3 decides the one-step inductive invariant and searches histories up to length 4/6; counterexample and witness histories replayed on the real code",
    text="Bounded model check of the memoisation protocol of class Crystal: state = version of (cell, space group, asymmetric unit) and, per hasattr-guarded cache and the stored CIF dictionary, the version it was computed at. z3 shows that no operation sequence (up to the bound, and by the inductive step for any length) ends in a query answered from data older than the state, or returns the history; histories are executed on r3c_example.cif and compared with freshly constructed crystals.",
    note="The abstraction is syntactic (hasattr/getattr/setattr/__dict__.pop idioms, assignments to self.unit_cell/space_group/asymmetric_unit); a model-level counterexample that the real code does not exhibit is reported as inconclusive, not as a violation; one test structure.")
NOT_APPLICABLE = [{"property_id": p, "reason": "check not yet implemented in this round (planned, see DESIGN.md section 3)"} for p in ALL if p not in CHECKS]
