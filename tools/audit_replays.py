import glob, json, importlib, os, sys, time, multiprocessing as mp
sys.path[:0] = ["/verif", "/repo/src"]
def one(path):
    d = json.load(open(path))
    mod = importlib.import_module("verif.props." + d["property"].lower())
    fn = mod.REPLAY.get(d["key"].split(":")[0])
    if fn is None:
        return path, "NOKEY", d["key"]
    t0 = time.time()
    try:
        ok, det = fn(d["data"])
    except Exception as e:
        return path, "RAISES", "%s: %s" % (type(e).__name__, e)
    return path, ("REPRODUCED-ON-CLEAN" if ok else "ok"), str(det)[:200] + " %.0fs" % (time.time() - t0)
if __name__ == "__main__":
    files = sorted(glob.glob("/var/tmp/replays_seed/*/*.json"))
    # one file per (seed, key) is enough
    seen, pick = set(), []
    for f in files:
        d = json.load(open(f))
        k = (os.path.dirname(f), d["key"].split(":")[0])
        if k not in seen:
            seen.add(k); pick.append(f)
    with mp.get_context("fork").Pool(12) as pool:
        res = pool.map(one, pick, chunksize=1)
    bad = [r for r in res if r[1] != "ok"]
    print(len(pick), "replays audited;", len(bad), "problems")
    for r in bad: print(r[1], r[0].replace("/var/tmp/replays_seed/", ""), r[2][:300])
