#!/usr/bin/env python3
"""keep_seed.py <name> <property> <seed_dir> <needs> <ran> <result>  -> /verif/seeded/<name>/"""
import json, os, shutil, sys
name, prop, sd, needs, ran, result = sys.argv[1:7]
d = os.path.join("/verif/seeded", name)
os.makedirs(d, exist_ok=True)
shutil.copy(os.path.join(sd, "patch.diff"), d)
shutil.copy(os.path.join(sd, "demo.py"), d)
if os.path.exists(os.path.join(sd, "notes.md")):
    shutil.copy(os.path.join(sd, "notes.md"), d)
json.dump({"property": prop, "breaks": open(os.path.join(sd, "property.txt")).read().split("Statement:")[0].strip() if os.path.exists(os.path.join(sd, "property.txt")) else prop,
           "needs_to_manifest": needs, "what_was_run": ran, "result": result, "origin": "independent sub-agent given only the property text and a scratch worktree"},
          open(os.path.join(d, "meta.json"), "w"), indent=1)
print("kept", d)
