#!/bin/bash
# run every registered quick check on the clean /repo tree (3 at a time) and report; evidence files are rewritten
cd /verif
git -C /repo diff --quiet || { echo "repo dirty"; exit 9; }
IDS=$(python3 -c "import json;print(' '.join(c['property_id'] for c in json.load(open('MANIFEST.json'))['checks']))")
for id in $IDS; do echo $id; done | xargs -P ${PAR:-3} -I{} sh -c 'VERIF_SEED=1 bin/vcheck {} --tier quick > /tmp/refresh_{}.log 2>&1; echo "{} exit=$? $(grep SUMMARY /tmp/refresh_{}.log | cut -c1-160)"'
