#!/bin/bash
# tools/try_seed.sh <ID> <seed_dir> [tier]   -- confirm a seeded change in its scratch worktree, then run the check against it on /repo
ID=$1; SD=$2; TIER=${3:-quick}; WT=/tmp/wt_$(basename $SD | sed 's/seed_//')
echo "== $ID $SD"
if [ -d $WT ]; then
  cd $WT
  git stash -q 2>/dev/null; git checkout -q -- . ; git apply $SD/patch.diff || { echo "patch does not apply in worktree"; }
  PYTHONPATH=$WT/src /venv/bin/python $SD/demo.py >/dev/null 2>&1; echo "demo with change: exit=$?"
  PYTHONPATH=$WT/src /venv/bin/python -m pytest -q -p no:cacheprovider --timeout=900 2>&1 | tail -1
  git checkout -q -- .
  PYTHONPATH=$WT/src /venv/bin/python $SD/demo.py >/dev/null 2>&1; echo "demo without change: exit=$?"
fi
cd /repo && git diff --quiet || { echo "repo dirty"; exit 9; }
git -C /repo apply $SD/patch.diff || { echo "patch does not apply to /repo HEAD"; exit 8; }
cp /verif/evidence/$ID.json /tmp/evidence_$ID.bak 2>/dev/null
cd /verif && bin/vcheck $ID --tier $TIER 2>&1 | grep -E "VIOLATION|KNOWN|HARNESS|SUMMARY" | cut -c1-250 | head -6
echo "check exit=${PIPESTATUS[0]}"
git -C /repo checkout -- .
[ -f /tmp/evidence_$ID.bak ] && mv /tmp/evidence_$ID.bak /verif/evidence/$ID.json
