#!/bin/bash
# Build the overlay venv (offline): /venv's packages + crosshair/z3/cvc5/sympy from the wheelhouse.
set -e
V=/verif/.venv
if [ ! -x $V/bin/python ] || ! $V/bin/python -c "import z3, crosshair, sympy, numpy" 2>/dev/null; then
  rm -rf $V
  /venv/bin/python -m venv $V
  echo "import site; site.addsitedir('/venv/lib/python3.12/site-packages')" > $V/lib/python3.12/site-packages/zz_venv.pth
  PIP_NO_INDEX=1 $V/bin/pip install -q --no-index --find-links /opt/veriftools/wheels crosshair-tool z3-solver cvc5 sympy jsonschema >/dev/null
fi
$V/bin/python -c "import z3, crosshair, sympy, numpy, chmpy" 
